"""C18 -- unit and time conversions are mutually inverse and multiplicative."""
from __future__ import annotations

import datetime
import itertools
import math

import numpy as np

from vlib.core import Clause, Outcome, rerun_replay
from props import common

LEVEL = 'other'
EXPLANATION = (
    'Deductive (pyvc, reals): SolarRadiation.time_to_orbital_time reduces both phases to [0, 2pi) and changes them by an '
    'integer multiple of 2pi (VCs from the real source, all times/rates/reference phases). Everything else in this property is '
    'about float rounding and about pint (an external dynamic library), which contracts over reals cannot decide; it is '
    'decided by bounded run-time contract twins: EXHAUSTIVE enumeration of whole-second durations (array path, all of '
    '0..N; scalar path on a stride plus every array-path failure), every minute of multi-year ranges for datetime <-> model '
    'time under several reference dates and scales, every minute of a leap and a non-leap year for datetime_to_orbital_time, '
    'a float32/float64 sweep of adversarial times for the phase reduction, and a grid of compound units x magnitudes x scales '
    'for Scale (round trip, unit independence, products, quotients, powers).')
ASSUMPTIONS = [
    'A1: the smt clause treats floats as reals; the float sweep is the deciding clause for rounding behaviour',
    'pint unit algebra is trusted (external); Scale is exercised through it on an enumerated grid',
    'bounded: durations 0..N seconds, datetimes in the listed ranges, listed scales and reference dates',
]
PE = 'dinosaur.primitive_equations.PrimitiveEquationsSpecs.'
XU = 'dinosaur.xarray_utils.'
RAD = 'dinosaur.radiation.'
SCL = 'dinosaur.scales.Scale.'


def _scales():
  from dinosaur import scales
  u = scales.units
  rng = np.random.RandomState(5)
  out = [('default', scales.DEFAULT_SCALE), ('atmospheric', scales.ATMOSPHERIC_SCALE),
         ('si', scales.Scale(1 * u.m, 1 * u.s, 1 * u.kg, 1 * u.degK))]
  for i in range(4):
    e = rng.uniform(-6, 6, 4)
    out.append((f'random{i}', scales.Scale(10 ** e[0] * u.m, 10 ** e[1] * u.s, 10 ** e[2] * u.kg, 10 ** e[3] * u.degK)))
  out.append(('mixed-units', scales.Scale(3.3 * u.km, 2.5 * u.hour, 17 * u.gram, 1.8 * u.degK)))
  return out


def _specs(scale):
  from dinosaur import primitive_equations as pe
  return pe.PrimitiveEquationsSpecs.from_si(scale=scale)


# ---- durations ------------------------------------------------------------------------------------------


def run_timedelta(ctx):
  out = Outcome()
  N = 1_000_000 if ctx.tier == 'quick' else 20_000_000
  for sname, scale in _scales()[:3] + _scales()[-1:]:
    specs = _specs(scale)
    n = np.arange(N + 1, dtype=np.int64)
    td = n.astype('timedelta64[s]')
    nd = specs.nondimensionalize_timedelta64(td)
    back = specs.dimensionalize_timedelta64(nd)
    bad = np.nonzero(back != td)[0]
    nm = f'{sname}: array path: dimensionalize_timedelta64(nondimensionalize_timedelta64(n s)) == n s for every n in 0..{N}'
    if bad.size == 0:
      out.ok(nm, 'enum', sample={'obligation': nm, 'durations': int(N + 1)})
    else:
      k = int(bad[0])
      out.fail(nm, witness={'scale': sname, 'seconds': k, 'path': 'array', 'count': int(bad.size)},
               detail=f'{bad.size} of {N + 1} whole-second durations do not survive, first {k} s -> {back[k]}', key='timedelta round trip (array path)')
    # scalar path: stride + every array-path failure + small values
    idx = sorted(set(list(range(0, 3000)) + list(range(0, N + 1, 9973)) + [int(b) for b in bad[:200]]))
    sbad = []
    for k in idx:
      t = np.timedelta64(k, 's')
      r = specs.dimensionalize_timedelta64(specs.nondimensionalize_timedelta64(t))
      if r != t:
        sbad.append((k, str(r)))
    nm = f'{sname}: scalar path: round trip for {len(idx)} whole-second durations (0..2999, stride 9973, all array-path failures)'
    if not sbad:
      out.ok(nm, 'enum')
    else:
      out.fail(nm, witness={'scale': sname, 'seconds': sbad[0][0], 'path': 'scalar', 'count': len(sbad)},
               detail=f'{len(sbad)} of {len(idx)} fail, e.g. {sbad[:5]}', key='timedelta round trip (scalar path)')
    # other units and array/scalar agreement, rounding-down rule for non-integers
    nm = f'{sname}: hours/minutes/days survive; scalar and array paths agree; non-integer values are rounded down'
    ok = True
    why = ''
    for t in (np.timedelta64(1, 'h'), np.timedelta64(90, 'm'), np.timedelta64(3, 'D'), np.timedelta64(36525, 'D')):
      r = specs.dimensionalize_timedelta64(specs.nondimensionalize_timedelta64(t))
      if r != t:
        ok, why = False, f'{t} -> {r}'
    one = float(specs.nondimensionalize_timedelta64(np.timedelta64(1, 's')))
    for x in (0.25, 0.5, 0.999, 6856.83, 12.0001, 1e6 + 0.75):
      v = x * one
      a = specs.dimensionalize_timedelta64(v)
      b = specs.dimensionalize_timedelta64(np.array(v))
      if a != np.timedelta64(int(math.floor(x)), 's') or b != a:
        ok, why = False, f'{x} s -> scalar {a}, array {b}, expected {math.floor(x)} s'
    (out.ok(nm, 'enum') if ok else out.fail(nm, witness={'scale': sname}, detail=why, key='timedelta units / rounding rule'))
  return out


def replay_timedelta(w):
  sname, k = w['scale'], int(w.get('seconds', 27))
  scale = dict(_scales())[sname]
  specs = _specs(scale)
  if w.get('path') == 'array':
    td = np.array([k]).astype('timedelta64[s]')
  else:
    td = np.timedelta64(k, 's')
  r = specs.dimensionalize_timedelta64(specs.nondimensionalize_timedelta64(td))
  bad = bool(np.any(r != td))
  return bad, f'scale {sname}: dimensionalize_timedelta64(nondimensionalize_timedelta64({k} s)) = {r} ({w.get("path")} path)'


# ---- datetimes -------------------------------------------------------------------------------------------


def run_datetime(ctx):
  from dinosaur import xarray_utils as xu
  out = Outcome()
  ranges = [('1979-01-01', '1986-01-01')] if ctx.tier == 'quick' else [('1950-01-01', '2050-01-01')]
  refs = [np.datetime64('1979-01-01'), np.datetime64('2000-02-29T13:17'), np.datetime64('1970-01-01')]
  for sname, scale in _scales()[:2] + _scales()[3:5] + _scales()[-1:]:
    specs = _specs(scale)
    for a, b in ranges:
      t = np.arange(np.datetime64(a, 'm'), np.datetime64(b, 'm'))
      for ref in refs:
        nd = xu.datetime64_to_nondim_time(t, specs, ref)
        back = xu.nondim_time_to_datetime64(nd, specs, ref)
        bad = np.nonzero(back != t)[0]
        nm = f'{sname}: every minute of [{a}, {b}) (ref {ref}): nondim_time_to_datetime64(datetime64_to_nondim_time(t)) == t'
        if bad.size == 0 and np.asarray(nd).dtype == np.float64:
          out.ok(nm, 'enum', sample={'obligation': nm, 'stamps': int(t.size)})
        else:
          k = int(bad[0]) if bad.size else 0
          out.fail(nm, witness={'scale': sname, 'ref': str(ref), 'when': str(t[k])},
                   detail=f'{bad.size} of {t.size} stamps differ (dtype {np.asarray(nd).dtype}), first {t[k]} -> {back[k]}', key='datetime round trip')
        # monotone and linear in elapsed minutes
        one = float(specs.nondimensionalize(1 * common_units().minute))
        dev = np.abs(np.diff(nd) / one - 1).max()
        nm = f'{sname}: (ref {ref}) model time advances by exactly one minute per minute (rel 1e-6 per step)'
        (out.ok(nm, 'enum') if dev < 1e-6 else out.fail(nm, witness={'scale': sname, 'ref': str(ref)}, detail=f'{dev:.3e}', key='datetime linear'))
    # time axis deltas
    for step, unit in ((1, 'h'), (6, 'h'), (90, 'm'), (1, 'D'), (17, 's')):
      ax = np.datetime64('1990-01-01') + np.arange(5) * np.timedelta64(step, unit)
      got = xu.nondim_time_delta_from_time_axis(ax, specs)
      want = specs.nondimensionalize(step * getattr(common_units(), {'h': 'hour', 'm': 'minute', 'D': 'day', 's': 'second'}[unit]))
      nm = f'{sname}: nondim_time_delta_from_time_axis({step}{unit} axis) == nondimensionalize({step} {unit})'
      (out.ok(nm, 'enum') if abs(got / want - 1) < 1e-14 else out.fail(nm, witness={'scale': sname, 'step': f'{step}{unit}'}, detail=f'{got} vs {want}', key='time axis delta'))
    ax = np.array([0.0, 0.125, 0.25])
    got = xu.nondim_time_delta_from_time_axis(ax, specs)
    nm = f'{sname}: float time axis delta returned unchanged'
    (out.ok(nm, 'enum') if got == 0.125 else out.fail(nm, witness={'scale': sname}, detail=str(got), key='time axis float'))
  return out


def common_units():
  from dinosaur import scales
  return scales.units


def replay_datetime(w):
  from dinosaur import xarray_utils as xu
  if 'when' not in w:
    return rerun_replay(run_datetime)(w)
  specs = _specs(dict(_scales())[w['scale']])
  t = np.array([np.datetime64(w['when'])])
  ref = np.datetime64(w['ref'])
  back = xu.nondim_time_to_datetime64(xu.datetime64_to_nondim_time(t, specs, ref), specs, ref)
  return bool(back[0] != t[0]), f'{t[0]} -> {back[0]} (ref {ref}, scale {w["scale"]})'


# ---- orbital phases --------------------------------------------------------------------------------------


def run_orbital_datetime(ctx):
  from dinosaur import radiation as rad
  out = Outcome()
  tp = 2 * math.pi
  for year in (1979, 2000) if ctx.tier == 'quick' else (1979, 1980, 2000, 2023, 2100):
    t0 = datetime.datetime(year, 1, 1)
    ndays = rad.days_in_year(t0)
    want_days = 366 if (year % 4 == 0 and (year % 100 != 0 or year % 400 == 0)) else 365
    bad = None
    prev = None
    stride = 1 if ctx.tier == 'thorough' or year in (1979,) else 7
    for m in range(0, ndays * 1440, stride):
      when = t0 + datetime.timedelta(minutes=m)
      ot = rad.datetime_to_orbital_time(when)
      o, s = float(ot.orbital_phase), float(ot.synodic_phase)
      eo = tp * m / (ndays * 1440)
      es = tp * (m % 1440) / 1440
      if not (0 <= o < tp and 0 <= s < tp) or abs(o - eo) > 1e-12 or abs(s - es) > 1e-12:
        bad = f'{when}: phases ({o}, {s}) expected ({eo}, {es})'
        break
    nm = f'{year}: datetime_to_orbital_time at every {stride} minute(s): phases in [0, 2pi), equal to elapsed fraction of the year / day; {want_days} days'
    if bad is None and ndays == want_days:
      out.ok(nm, 'enum', sample={'obligation': nm, 'minutes': ndays * 1440 // stride})
    else:
      out.fail(nm, witness={'year': year}, detail=bad or f'days_in_year = {ndays}', key='datetime_to_orbital_time')
  return out


def _solar(specs, ref):
  from dinosaur import coordinate_systems as cs, radiation as rad, sigma_coordinates as sc
  g = common.make_grid(1, 2, 4, 3)
  return rad.SolarRadiation(cs.CoordinateSystem(g, sc.SigmaCoordinates.equidistant(1)), specs, ref)


def run_orbital_float(ctx):
  """Float sweep of SolarRadiation.time_to_orbital_time (A1 hides rounding in the smt clause)."""
  jax = common.jx()
  import jax.numpy as jnp
  from dinosaur import radiation as rad, scales
  out = Outcome()
  u = scales.units
  tp64 = 2 * math.pi
  for sname, scale in _scales()[:1] + _scales()[3:4]:
    specs = _specs(scale)
    day = float(specs.nondimensionalize(1 * u.day))
    year = float(specs.nondimensionalize(1 * u.year))
    for ref in (datetime.datetime(1979, 1, 1), datetime.datetime(2000, 2, 29, 13, 17)):
      sr = _solar(specs, ref)
      r0 = (float(sr.reference_orbital_time.orbital_phase), float(sr.reference_orbital_time.synodic_phase))
      rate = (float(sr.orbital_rate.orbital_phase), float(sr.orbital_rate.synodic_phase))
      times = [0.0, day, -day, year, -year, 1e4 * year, -1e4 * year, 0.5 * day, 1e-30, -1e-30, 1e-300, -1e-300]
      # times at which a raw phase is a tiny negative / positive number or an exact multiple of the period
      for j in (0, 1):
        for k in (-3, -1, 0, 1, 2, 1000):
          t_star = (k * tp64 - r0[j]) / rate[j]
          times += [t_star, np.nextafter(t_star, -np.inf), np.nextafter(t_star, np.inf), t_star * (1 - 1e-15), t_star * (1 + 1e-15)]
      rng = np.random.RandomState(3)
      times += list(rng.uniform(-1, 1, 200 if ctx.tier == 'quick' else 5000) * 10 ** rng.uniform(-3, 6, 200 if ctx.tier == 'quick' else 5000) * day)
      for dtype in (np.float64, np.float32, 'python-float'):
        bad = []
        for t in times:
          tt = float(t) if dtype == 'python-float' else jnp.asarray(t, dtype)
          ot = sr.time_to_orbital_time(tt)
          tp = float(np.float32(tp64)) if dtype is np.float32 else tp64
          for j, ph in enumerate((ot.orbital_phase, ot.synodic_phase)):
            ph = float(ph)
            if not (0 <= ph < tp):
              bad.append((float(t), ('orbital', 'synodic')[j], ph))
            elif dtype is not np.float32:
              raw = r0[j] + rate[j] * float(t)
              q = (raw - ph) / tp64
              if abs(q - round(q)) > 1e-6 * max(1.0, abs(q)):
                bad.append((float(t), ('orbital', 'synodic')[j] + ' (not congruent to elapsed time)', ph))
        nm = f'{sname}:ref {ref}:{dtype if isinstance(dtype, str) else dtype.__name__}: time_to_orbital_time in [0, 2pi) and congruent to ref + rate*t ({len(times)} adversarial and random times)'
        if not bad:
          out.ok(nm, 'numeric')
        else:
          b = bad[0]
          out.fail(nm, witness={'scale': sname, 'ref': ref.isoformat(), 'dtype': str(dtype), 'time': b[0].hex(), 'phase': b[1]},
                   detail=f'{len(bad)} violations, e.g. t={b[0]!r}: {b[1]} phase = {b[2]!r} (2pi = {tp64!r})',
                   key='time_to_orbital_time float result outside [0, 2pi)')
  return out


def replay_orbital_float(w):
  jax = common.jx()
  import jax.numpy as jnp
  if 'time' not in w:
    return rerun_replay(run_orbital_float)(w)
  specs = _specs(dict(_scales())[w['scale']])
  sr = _solar(specs, datetime.datetime.fromisoformat(w['ref']))
  t = float.fromhex(w['time'])
  dt = w['dtype']
  tt = t if 'python' in dt else jnp.asarray(t, np.float32 if 'float32' in dt else np.float64)
  ot = sr.time_to_orbital_time(tt)
  tp = float(np.float32(2 * math.pi)) if 'float32' in dt else 2 * math.pi
  o, s = float(ot.orbital_phase), float(ot.synodic_phase)
  bad = not (0 <= o < tp and 0 <= s < tp)
  return bad, f'time_to_orbital_time({t!r}) [{dt}] = (orbital {o!r}, synodic {s!r}); 2pi = {tp!r}'


# ---- Scale ---------------------------------------------------------------------------------------------


def run_scale(ctx):
  out = Outcome()
  try:
    return _run_scale(ctx, out)
  except Exception as e:  # pylint: disable=broad-except
    import traceback
    tb = traceback.extract_tb(e.__traceback__)
    in_repo = [f for f in tb if '/dinosaur/' in f.filename]
    if not in_repo:
      raise
    out.fail('Scale conversions raise on valid input', witness={}, detail=f'{type(e).__name__}: {e} at {in_repo[-1].filename}:{in_repo[-1].lineno} ({in_repo[-1].line})',
             key='scale raises on valid input')
    return out


def _run_scale(ctx, out):
  from dinosaur import scales
  u = scales.units
  exps = list(itertools.product(range(-3, 4), repeat=4))
  if ctx.tier == 'quick':
    rng = np.random.RandomState(0)
    exps = [exps[i] for i in rng.choice(len(exps), 200, replace=False)] + [(0, 0, 0, 0), (1, 0, 0, 0), (2, -2, 1, 0), (-1, -2, 1, 0)]
  spellings = [
      (u.J, u.N * u.m, u.kg * u.m ** 2 / u.s ** 2), (u.hPa, u.Pa, u.kg / u.m / u.s ** 2), (u.W / u.m ** 2, u.kg / u.s ** 3, u.J / u.s / u.m ** 2),
      (u.km / u.hour, u.m / u.s, u.mile / u.day), (u.degK, u.kelvin, u.degK), (u.J / u.kg / u.degK, u.m ** 2 / u.s ** 2 / u.degK, u.kJ / u.gram / u.kelvin),
  ]
  mags = [10.0 ** k for k in (-30, -7, 0, 3, 30)] + [3.7, -2.5e4]
  for sname, scale in _scales():
    worst = 0.0
    bad = None
    for e in exps:
      unit = u.m ** e[0] * u.s ** e[1] * u.kg ** e[2] * u.degK ** e[3]
      for mag in (mags if ctx.tier == 'thorough' else mags[1:4] + mags[5:6]):
        q = mag * unit
        nd = scale.nondimensionalize(q)
        back = scale.dimensionalize(nd, unit if e != (0, 0, 0, 0) else u.dimensionless)
        r = abs(back.magnitude / mag - 1)
        worst = max(worst, r)
        if r > 1e-13:
          bad = f'{q} -> {nd} -> {back}'
    nm = f'{sname}: dimensionalize(nondimensionalize(q), unit) == q for {len(exps)} compound units x magnitudes (rel 1e-13)'
    (out.ok(nm, 'enum', sample={'obligation': nm, 'worst_rel': worst}) if bad is None else
     out.fail(nm, witness={'scale': sname}, detail=bad, key='scale round trip'))
    # independence of the input unit; re-dimensionalising in any compatible unit
    bad = None
    for group in spellings:
      vals = [scale.nondimensionalize(2.5 * g) / float((1 * g).to(group[0]).magnitude) for g in group]
      if max(abs(v / vals[0] - 1) for v in vals) > 1e-13:
        bad = f'{group}: {vals}'
      for a in group:
        for b in group:
          x = scale.dimensionalize(scale.nondimensionalize(2.5 * a), b)
          if abs(x.to(a).magnitude / 2.5 - 1) > 1e-13:
            bad = f'2.5 {a} -> nondim -> {b} = {x}'
    nm = f'{sname}: conversion independent of the spelling of the unit; re-dimensionalising in any compatible unit returns the same quantity'
    (out.ok(nm, 'enum') if bad is None else out.fail(nm, witness={'scale': sname}, detail=bad, key='scale unit independence'))
    # multiplicativity
    bad = None
    rng = np.random.RandomState(1)
    qs = [rng.uniform(0.5, 2) * 10 ** rng.uniform(-5, 5) * (u.m ** int(a) * u.s ** int(b) * u.kg ** int(c) * u.degK ** int(d))
          for a, b, c, d in rng.randint(-2, 3, size=(24, 4))]
    for q1, q2 in zip(qs[::2], qs[1::2]):
      n1, n2 = scale.nondimensionalize(q1), scale.nondimensionalize(q2)
      for got, want, what in ((scale.nondimensionalize(q1 * q2), n1 * n2, 'product'), (scale.nondimensionalize(q1 / q2), n1 / n2, 'quotient'),
                              (scale.nondimensionalize(q1 ** 3), n1 ** 3, 'cube'), (scale.nondimensionalize(q1 ** -2), n1 ** -2, 'inverse square')):
        if abs(got / want - 1) > 1e-12:
          bad = f'{what} of {q1}, {q2}: {got} vs {want}'
    nm = f'{sname}: nondimensionalize respects products, quotients and powers (12 random pairs, rel 1e-12)'
    (out.ok(nm, 'enum') if bad is None else out.fail(nm, witness={'scale': sname}, detail=bad, key='scale multiplicative'))
    # offset temperature units (degC, degF): the conversion is affine, not a pure rescaling
    bad = None
    for val, unit in ((25.0, u.degC), (-40.0, u.degC), (98.6, u.degF), (0.0, u.degC), (300.0, u.degK), (540.0, u.degR)):
      nd = scale.nondimensionalize(val * unit if unit in (u.degK, u.degR) else u.Quantity(val, unit))
      same = scale.nondimensionalize(u.Quantity(val, unit).to(u.degK))
      if abs(nd / same - 1) > 1e-13:
        bad = f'nondimensionalize({val} {unit}) = {nd}, but the same temperature in kelvin gives {same}'
      for tgt in (u.degC, u.degF, u.degK, u.degR):
        back = scale.dimensionalize(nd, tgt)
        want = u.Quantity(val, unit).to(tgt).magnitude
        if abs(back.magnitude - want) > 1e-9 * max(1.0, abs(want)):
          bad = f'dimensionalize(nondimensionalize({val} {unit}), {tgt}) = {back}, expected {want} {tgt}'
        k1, k2 = back.to(u.degK).magnitude, scale.dimensionalize(nd, u.degK).magnitude
        if abs(k1 - k2) > 1e-9 * max(1.0, abs(k2)):
          bad = f'dimensionalize(y, {tgt}).to(K) = {k1} differs from dimensionalize(y, K) = {k2}'
    nm = f'{sname}: temperatures round-trip through offset units (degC, degF) and agree with the kelvin conversion'
    (out.ok(nm, 'enum') if bad is None else out.fail(nm, witness={'scale': sname}, detail=bad, key='scale offset units'))
    # arrays
    arr = np.array([1e-9, 1.0, 2.5, 7e11])
    nd = scale.nondimensionalize(arr * u.m / u.s)
    back = scale.dimensionalize(nd, u.km / u.hour).to(u.m / u.s).magnitude
    nm = f'{sname}: array-valued quantities: round trip elementwise, equal to the scalar conversion'
    sc = np.array([scale.nondimensionalize(a * u.m / u.s) for a in arr])
    ok = np.allclose(back, arr, rtol=1e-13, atol=0) and np.allclose(nd, sc, rtol=1e-15, atol=0)
    (out.ok(nm, 'enum') if ok else out.fail(nm, witness={'scale': sname}, detail=f'{back} vs {arr}', key='scale arrays'))
  # validation of Scale construction
  from dinosaur import scales as S
  for what, fn in (('compound scale rejected', lambda: S.Scale(1 * u.m / u.s)), ('duplicate dimension rejected', lambda: S.Scale(1 * u.m, 2 * u.km)),
                   ('missing dimension raises on use', lambda: S.Scale(1 * u.m).nondimensionalize(1 * u.s))):
    try:
      fn()
      out.fail(f'Scale: {what}', witness={}, detail='no exception', key=f'scale validation {what}')
    except ValueError:
      out.ok(f'Scale: {what}', 'enum')
  return out


def clauses(tier, seed):
  from contracts import forcing_contracts as F
  smt = [c for c in F.clauses() if 'time_to_orbital_time' in c.name]
  return smt + [
      Clause('enum:whole-second durations survive nondimensionalize/dimensionalize_timedelta64 (exhaustive range)', 'enum',
             [PE + 'nondimensionalize_timedelta64', PE + 'dimensionalize_timedelta64'], run_timedelta, replay=replay_timedelta, group='a', heavy=True),
      Clause('enum:datetime64 <-> non-dimensional time round trip at minute resolution (every minute of the ranges)', 'enum',
             [XU + 'datetime64_to_nondim_time', XU + 'nondim_time_to_datetime64', XU + 'nondim_time_delta_from_time_axis'], run_datetime,
             replay=replay_datetime, group='b', heavy=True),
      Clause('enum:datetime_to_orbital_time phases (every minute of leap and non-leap years)', 'enum',
             [RAD + 'datetime_to_orbital_time', RAD + 'days_in_year'], run_orbital_datetime, replay=rerun_replay(run_orbital_datetime), group='c', heavy=True),
      Clause('numeric:time_to_orbital_time float sweep: always in [0, 2pi), congruent to elapsed time', 'numeric',
             [RAD + 'SolarRadiation.time_to_orbital_time'], run_orbital_float, replay=replay_orbital_float, group='d', heavy=True),
      Clause('enum:Scale round trip, unit independence, multiplicativity, arrays, validation', 'enum',
             [SCL + '_scaling_factor', SCL + 'nondimensionalize', SCL + 'dimensionalize', SCL + '__init__'], run_scale,
             replay=rerun_replay(run_scale), group='e', heavy=True),
  ]


MANIFEST = {
    'engine': 'pyvc+rtc',
    'technique': ('contract-based: phase reduction proved from the real source over the reals (pyvc/z3); all rounding-dependent conversions decided by '
                  'bounded run-time contract twins with exhaustive enumeration of the stated ranges (durations, datetimes) and an enumerated unit/scale grid'),
    'text': ('other: only the orbital-phase reduction has a deductive clause (reals). The round-trip claims are float-rounding facts about pint-backed '
             'conversions; they are decided by exhaustive enumeration inside stated ranges (exhaustive within the range, bounded overall) and are not counted as proved.'),
    'note': 'trusted: pint; numpy datetime64 arithmetic; A1 for the smt clause.',
}
