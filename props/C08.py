"""C08 -- forward- and reverse-mode derivatives are finite, mutually adjoint and correct."""
from __future__ import annotations

import numpy as np

from vlib.core import Clause, Outcome, rerun_replay
from props import common, tendency

LEVEL = 'other'
EXPLANATION = (
    'The derivative programs are produced by JAX (A7); the contract the repository can violate is "every differentiable entry point '
    'is built from differentiable primitives and stays away from their singular sets". Deductive per configuration (static analysis of '
    'the traced programs, valid for all inputs): (i) primitive census -- no custom_jvp/custom_vjp/stop_gradient/rounding/integer-cast/'
    'sort/argmax/while/cond primitive on any path from the inputs to the outputs of the transforms, filters, tendencies (dry, moist, '
    'shallow water, Held-Suarez), implicit operators, interpolation kernels and one full step of every integrator; (ii) the dry, '
    'time-carrying and shallow-water tendencies, the implicit operators and complete integrator steps are *polynomial* maps of the '
    'state (degree analysis), hence smooth with finite derivatives at every state, the rest state included; for the remaining entry '
    'points the non-smooth primitives (max, select on input-dependent predicates, div, log, pow, sqrt) are enumerated and must match the '
    'allowed list. Bounded: at K primal states per entry point (zero / rest states included) the complete Jacobian is extracted in '
    'forward mode and in reverse mode: all entries finite, J_fwd == J_rev (the adjoint identity for every pair of directions), and '
    'central differences at two step sizes agree with J; gradients through nested_checkpoint_scan for every ordered factorisation of the '
    'step count equal those of the flat scan.')
ASSUMPTIONS = [
    'A7: jax.jvp / jax.vjp / jax.checkpoint are correct for programs built from standard primitives',
    'A2: float64; adjoint identity to 1e-10 relative, finite differences to 1e-5 relative with h-extrapolation',
    'bounded over primal states (sampled + special states) and configurations; complete over tangent/cotangent directions at those states',
]
FORBIDDEN = {'custom_jvp_call', 'custom_vjp_call', 'custom_vjp_call_jaxpr', 'stop_gradient', 'round', 'floor', 'ceil', 'sign', 'sort', 'argmax',
             'argmin', 'while', 'cond', 'random_bits', 'threefry2x32', 'nextafter', 'population_count', 'clamp', 'reduce_precision', 'is_finite',
             'rem', 'erf_inv', 'top_k', 'cumlogsumexp', 'bitcast_convert_type'}
KINKS = {'max', 'min', 'select_n', 'div', 'log', 'pow', 'sqrt', 'rsqrt', 'abs', 'reduce_max', 'reduce_min', 'exp', 'gather', 'dynamic_slice',
         'lt', 'le', 'gt', 'ge', 'eq', 'ne', 'integer_pow', 'and', 'or', 'not', 'cumsum', 'cummax', 'tanh', 'logistic'}


def _entry_points(tier, seed):
  """name -> (fn, example_input_pytree, expected: 'polynomial' | set of allowed kink primitives, list of primal inputs)."""
  jax = common.jx()
  import jax.numpy as jnp
  from dinosaur import coordinate_systems as cs, filtering, held_suarez as hs, layer_coordinates, primitive_equations as pe
  from dinosaur import shallow_water as sw, time_integration as ti, vertical_interpolation as vi
  from props import C03
  eps = {}
  specs = common.physics_specs()
  for impl in ('real', 'fast'):
    g = common.make_grid(3, 4, 10, 7, 'gauss', impl)
    sig = common.sigma_levels('uneven', 2, seed)
    coords = cs.CoordinateSystem(g, sig)
    mask = np.asarray(g.mask) * (np.arange(g.modal_shape[1]) < g.total_wavenumbers - 1)[None]

    def mk_state(cls, k, amp, mask=mask, g=g):
      rng = np.random.RandomState(100 + k)
      f = lambda n, a: jnp.asarray(rng.randn(n, *g.modal_shape) * mask * a * amp)
      tr = {}
      if cls == 'moist':
        q = f(2, 0.002)
        tr = {'specific_humidity': q.at[:, 0, 0].add(0.01 * np.sqrt(4 * np.pi))}
      lnps = f(1, 0.05)
      args = (f(2, 0.3), f(2, 0.3), f(2, 5.0), lnps)
      if cls in ('moist', 'time'):
        return pe.StateWithTime(*args, jnp.asarray(0.0), tr)
      return pe.State(*args, tr)
    K = 2 if tier == 'quick' else 6
    amps = [0.0] + [(0.1, 1.0, 3.0)[i % 3] for i in range(K)]        # amplitude 0 = rest state (zero wind)
    oro = np.random.RandomState(5).randn(*g.modal_shape) * mask * 0.01
    for cls in ('dry', 'moist'):
      eq = common.make_primitive(g, sig, 'linear', cls=cls, specs=specs, orography=oro)
      states = [mk_state(cls, k, a) for k, a in enumerate(amps)]
      poly = 'polynomial' if cls == 'dry' else {'div', 'integer_pow'}
      eps[f'{cls}:{impl}:explicit_terms'] = (eq.explicit_terms, states, poly)
      if cls == 'dry':
        # the non-default first-order upwind scheme: piecewise linear in the vertical velocity (max / min against 0); the rest state sits exactly on
        # the kink, where the derivative of max / min splits evenly -- which is what a central difference of the primal gives
        from dinosaur import sigma_coordinates as _sc
        eq_up = common.make_primitive(g, sig, 'linear', cls=cls, specs=specs, orography=oro, vertical_advection=_sc.upwind_vertical_advection)
        eps[f'{cls}:{impl}:explicit_terms[upwind vertical advection]'] = (eq_up.explicit_terms, states, {'max', 'min', 'div'})       # div: by constants (radius, level spacing) downstream of the max / min
        eps[f'{cls}:{impl}:implicit_terms'] = (eq.implicit_terms, states[:2], 'polynomial')
        eps[f'{cls}:{impl}:implicit_inverse'] = (lambda s, eq=eq: eq.implicit_inverse(s, 0.37), states[:2], 'polynomial')
        if impl == 'real' or tier == 'thorough':
          dt = 0.01
          for nm, mkstep in (('imex_rk_sil3', ti.imex_rk_sil3), ('crank_nicolson_rk2', ti.crank_nicolson_rk2), ('crank_nicolson_rk3', ti.crank_nicolson_rk3),
                             ('crank_nicolson_rk4', ti.crank_nicolson_rk4), ('backward_forward_euler', ti.backward_forward_euler)):
            if tier == 'quick' and nm in ('crank_nicolson_rk3', 'crank_nicolson_rk4'):
              continue
            eps[f'{cls}:{impl}:step[{nm}]'] = (mkstep(eq, dt), states[:2], 'polynomial')
          lf = ti.semi_implicit_leapfrog(eq, dt)
          eps[f'{cls}:{impl}:step[semi_implicit_leapfrog]'] = (lf, [(states[0], states[1]), (states[1], states[2])], 'polynomial')
          filt = [ti.exponential_step_filter(g, dt), ti.horizontal_diffusion_step_filter(g, dt, tau=0.1, order=2)]
          eps[f'{cls}:{impl}:step_with_filters[sil3 + exponential + diffusion]'] = (ti.step_with_filters(ti.imex_rk_sil3(eq, dt), filt), states[:2], 'polynomial')
    # Held-Suarez
    eqd = common.make_primitive(g, sig, 'linear', cls='dry', specs=specs)
    f_hs = hs.HeldSuarezForcing(coords, specs, eqd.reference_temperature)
    from dinosaur import scales as _scales
    base = np.log(float(specs.nondimensionalize(1e5 * _scales.units.pascal))) * np.sqrt(4 * np.pi)
    hs_states = []
    for k, a in enumerate(amps):
      s = mk_state('dry', k, a)
      hs_states.append(pe.State(s.vorticity, s.divergence, s.temperature_variation, s.log_surface_pressure.at[:, 0, 0].add(base), {}))
    eps[f'held_suarez:{impl}:explicit_terms'] = (f_hs.explicit_terms, hs_states, {'max', 'log', 'pow', 'exp', 'div', 'integer_pow', 'select_n', 'gt', 'lt', 'ge', 'le'})
    # shallow water
    c2 = cs.CoordinateSystem(g, layer_coordinates.LayerCoordinates(2))
    eqs = C03._make_sw(sw, c2, np.array([0.8, 1.3]), np.array([1.0, 2.0]))
    sws = []
    for k, a in enumerate(amps[:3]):
      rng = np.random.RandomState(300 + k)
      sws.append(sw.State(*[jnp.asarray(rng.randn(2, *g.modal_shape) * mask * a) for _ in range(3)]))
    eps[f'shallow_water:{impl}:explicit_terms'] = (eqs.explicit_terms, sws, 'polynomial')
    eps[f'shallow_water:{impl}:implicit_inverse'] = (lambda s, eqs=eqs: eqs.implicit_inverse(s, 0.2), sws[:2], 'polynomial')
    # transforms and filters
    xm = [jnp.asarray(np.random.RandomState(7).randn(2, *g.modal_shape) * np.asarray(g.mask)), jnp.zeros((2,) + g.modal_shape)]
    xn = [jnp.asarray(np.random.RandomState(8).randn(2, *g.nodal_shape))]
    eps[f'grid:{impl}:to_nodal'] = (g.to_nodal, xm, 'polynomial')
    eps[f'grid:{impl}:to_modal'] = (g.to_modal, xn, 'polynomial')
    eps[f'grid:{impl}:exponential_filter'] = (filtering.exponential_filter(g, attenuation=8, order=2), xm, 'polynomial')
    eps[f'grid:{impl}:horizontal_diffusion_filter'] = (filtering.horizontal_diffusion_filter(g, 0.01, 2), xm, 'polynomial')
  # vertical interpolation kernels (w.r.t. the data; and w.r.t. the query away from the nodes)
  xp = jnp.asarray([0.1, 0.25, 0.5, 0.8, 0.95])
  q = jnp.asarray([0.05, 0.3, 0.77, 0.99])
  fps = [jnp.asarray(np.random.RandomState(9).randn(5)), jnp.zeros(5)]
  eps['interp:linear_interp_with_linear_extrap(data)'] = (lambda fp: jax.vmap(lambda x: vi.linear_interp_with_linear_extrap(x, xp, fp))(q), fps,
                                                          {'div', 'select_n', 'gather', 'dynamic_slice', 'lt', 'le', 'gt', 'ge', 'max', 'min', 'eq', 'ne', 'and', 'or', 'not'})
  eps['interp:interp(data)'] = (lambda fp: jax.vmap(lambda x: vi.interp(x, xp, fp))(q), fps,
                                {'div', 'select_n', 'gather', 'dynamic_slice', 'lt', 'le', 'gt', 'ge', 'max', 'min', 'eq', 'ne', 'and', 'or', 'not', 'abs'})
  eps['interp:_dot_interp(data)'] = (lambda fp: jax.vmap(lambda x: vi._dot_interp(x, xp, fp))(q), fps,
                                     {'div', 'select_n', 'lt', 'le', 'gt', 'ge', 'max', 'min', 'eq', 'ne', 'and', 'or', 'not', 'abs'})
  eps['interp:linear_interp_with_linear_extrap(query)'] = (lambda x: jax.vmap(lambda xx: vi.linear_interp_with_linear_extrap(xx, xp, fps[0]))(x), [q],
                                                           {'div', 'select_n', 'gather', 'dynamic_slice', 'lt', 'le', 'gt', 'ge', 'max', 'min', 'eq', 'ne', 'and', 'or', 'not'})
  # scan combinators with scanned-over inputs xs (per-step forcing): derivatives w.r.t. init AND xs must flow through every nesting level
  def forced_body(c, x):
    c2 = c + 0.1 * jnp.sin(c) * x - 0.05 * c * c
    return c2, c2 * x
  c0 = jnp.asarray([0.3, -0.7, 1.1])
  xs0 = jnp.asarray(np.random.RandomState(12).randn(12, 3))
  for nested in ((12,), (3, 4), (2, 3, 2)):
    eps[f'scan:nested_checkpoint_scan{nested}(init, xs)'] = (
        (lambda cx, nested=nested: ti.nested_checkpoint_scan(forced_body, cx[0], cx[1], nested_lengths=nested)), [(c0, xs0), (jnp.zeros(3), xs0)],
        {'sin'})
  return eps


def run_static(ctx):
  jax = common.jx()
  from vlib import jxa
  out = Outcome()
  for name, (fn, primals, expect) in _entry_points(ctx.tier, ctx.seed).items():
    outs, tree, an, closed = jxa.analyze(fn, (primals[0],))
    prim = set(an.primitives)
    bad = sorted(prim & FORBIDDEN)
    nm = f'{name}: no non-differentiable / custom-derivative primitive on a path from the inputs to the outputs'
    if bad:
      out.fail(nm, witness={'entry': name, 'primitives': bad}, detail=f'forbidden primitives on input-dependent paths: {bad}', key=f'{name}:forbidden')
    else:
      out.ok(nm, 'static', sample={'obligation': nm, 'primitives_on_input_paths': sorted(prim)})
    d, why = jxa.max_degree(outs)
    if expect == 'polynomial':
      nm = f'{name}: polynomial map of its input (smooth with finite derivatives at every state, rest state included)'
      if d is not None:
        out.ok(nm, 'static', sample={'obligation': nm, 'degree': d})
      else:
        out.fail(nm, witness={'entry': name, 'reason': why}, detail=f'not polynomial: {why}', key=f'{name}:not polynomial')
    else:
      # first-hand sources of non-polynomiality (polynomial operands, non-polynomial result) plus every non-smooth primitive downstream
      present = set(an.kinks) | (prim & {'max', 'min', 'abs', 'sqrt', 'rsqrt', 'log', 'pow', 'div', 'reduce_max', 'reduce_min', 'clamp'})
      kinks = sorted(present - set(expect))
      nm = f'{name}: sources of non-smoothness on input paths are within the reviewed list {sorted(expect)}'
      if kinks:
        out.fail(nm, witness={'entry': name, 'primitives': kinks}, detail=f'new non-smooth primitives: {kinks} (first-hand: {an.kinks})', key=f'{name}:new kinks')
      else:
        out.ok(nm, 'static', sample={'obligation': nm, 'present': sorted(present), 'first_hand': an.kinks})
  return out


def _jac_checks(fn, x0, name, out, smooth=True):
  import jax
  import jax.numpy as jnp
  from jax.flatten_util import ravel_pytree
  v0, unravel = ravel_pytree(x0)
  f = lambda v: ravel_pytree(fn(unravel(v)))[0]
  y0 = f(v0)
  Jf = np.asarray(jax.jit(jax.jacfwd(f))(v0))
  Jr = np.asarray(jax.jit(jax.jacrev(f))(v0))
  fin = bool(np.all(np.isfinite(Jf)) and np.all(np.isfinite(Jr)) and np.all(np.isfinite(np.asarray(y0))))
  scale = max(1e-300, np.abs(Jf[np.isfinite(Jf)]).max() if np.isfinite(Jf).any() else 1.0)
  adj = float(np.abs(Jf - Jr).max() / scale) if fin else np.inf
  # central differences along random directions and a few basis directions, two step sizes
  rng = np.random.RandomState(0)
  n = v0.size
  dirs = [rng.randn(n) for _ in range(4)] + [np.eye(n)[i] for i in rng.choice(n, min(4, n), replace=False)]
  sx = max(1.0, float(jnp.abs(v0).max()))
  fd_err = 0.0
  fj = jax.jit(f)
  for dvec in dirs:
    dvec = dvec / np.linalg.norm(dvec)
    jv = Jf @ dvec
    est = []
    for h in (1e-4 * sx, 5e-5 * sx):
      est.append((np.asarray(fj(v0 + h * dvec)) - np.asarray(fj(v0 - h * dvec))) / (2 * h))
    rich = (4 * est[1] - est[0]) / 3          # O(h^4) for smooth f
    den = max(1e-12, np.abs(jv).max(), 1e-6 * scale)
    err = np.abs(rich - jv) / den
    if not smooth:
      # piecewise-smooth entry points: output components whose two difference quotients disagree cross a kink within h of the
      # primal point; the derivative there is one-sided and is not compared (at most 10% of the components may be excluded)
      crossing = np.abs(est[1] - est[0]) / den > 1e-5
      if crossing.mean() > 0.1:
        return fin, adj, float('inf'), Jf.shape
      err = np.where(crossing, 0.0, err)
    fd_err = max(fd_err, float(err.max()))
  return fin, adj, fd_err, Jf.shape


def run_jacobians(ctx):
  jax = common.jx()
  out = Outcome()
  for name, (fn, primals, expect) in _entry_points(ctx.tier, ctx.seed).items():
    for k, x0 in enumerate(primals):
      fin, adj, fd, shape = _jac_checks(fn, x0, name, out, smooth=(expect == 'polynomial' or 'moist' in name))
      tag = f'{name}: state {k}{" (rest / zero state)" if k == 0 and ("explicit" in name or "step" in name) else ""}'
      wit = {'entry': name, 'state': k}
      nm = f'{tag}: forward and reverse Jacobians finite ({shape[0]}x{shape[1]})'
      (out.ok(nm, 'numeric') if fin else out.fail(nm, witness=wit, detail='non-finite entries in the Jacobian or the primal output', key=f'{name}:non-finite derivative'))
      if not fin:
        continue
      nm = f'{tag}: reverse mode is the exact adjoint of forward mode (J_fwd == J_rev, all directions)'
      (out.ok(nm, 'numeric', sample={'obligation': nm, 'rel': adj}) if adj <= 1e-10 else out.fail(nm, witness=wit, detail=f'{adj:.3e}', key=f'{name}:adjoint'))
      nm = f'{tag}: forward derivative matches Richardson-extrapolated central differences'
      if 'upwind' in name and k > 0 and fd == float('inf'):
        # piecewise-linear in the vertical velocity, whose magnitude at generic states is below the difference step: most components cross the
        # kink inside the step, where a difference quotient says nothing about the one-sided derivative.  Not compared at such states (no
        # obligation); the comparison that matters is at the rest state, which sits exactly on the kink (DESIGN 9, C08 upwind)
        out.info.setdefault('not_compared', []).append(tag)
        continue
      tol = 2e-5 if 'query' not in name else 1e-4
      (out.ok(nm, 'numeric', sample={'obligation': nm, 'rel': fd}) if fd <= tol else out.fail(nm, witness=wit, detail=f'{fd:.3e}', key=f'{name}:finite difference'))
  return out


def run_checkpoint(ctx):
  """Gradient checkpointing and scan nesting do not change values or gradients."""
  jax = common.jx()
  import jax.numpy as jnp
  import itertools
  from dinosaur import time_integration as ti
  from jax.flatten_util import ravel_pytree
  out = Outcome()
  specs = common.physics_specs()
  g = common.make_grid(3, 4, 10, 7, 'gauss', 'real')
  sig = common.sigma_levels('uneven', 2, ctx.seed)
  eq = common.make_primitive(g, sig, 'linear', cls='dry', specs=specs)
  step = ti.imex_rk_sil3(eq, 0.01)
  eps = _entry_points('quick', ctx.seed)
  s0 = eps['dry:real:explicit_terms'][1][2]
  v0, unravel = ravel_pytree(s0)
  w = jnp.asarray(np.random.RandomState(1).randn(v0.size))

  def facts(n):
    res = [[n]]
    for a in range(2, n):
      if n % a == 0:
        for rest in facts(n // a):
          res.append([a] + rest)
    return res
  for total in ((12,) if ctx.tier == 'quick' else (12, 16, 30)):
    def loss(v, nested):
      def body(c, _):
        c2 = step(c)
        return c2, ravel_pytree(c2)[0][:3]
      c, ys = ti.nested_checkpoint_scan(body, unravel(v), None, length=total, nested_lengths=nested)
      return jnp.vdot(ravel_pytree(c)[0], w) + jnp.sum(ys)
    ref_val, ref_grad = jax.jit(jax.value_and_grad(lambda v: loss(v, [total])))(v0)
    for nested in facts(total):
      if nested == [total]:
        continue
      val, grad = jax.jit(jax.value_and_grad(lambda v: loss(v, nested)))(v0)
      e = max(abs(float(val - ref_val)) / max(1.0, abs(float(ref_val))), float(jnp.abs(grad - ref_grad).max() / max(1e-300, float(jnp.abs(ref_grad).max()))))
      nm = f'nested_checkpoint_scan({total} steps, nested_lengths={nested}): value and gradient equal the flat scan'
      (out.ok(nm, 'numeric', sample={'obligation': nm, 'rel': e}) if e <= 1e-11 and bool(jnp.all(jnp.isfinite(grad))) else
       out.fail(nm, witness={'total': total, 'nested': nested}, detail=f'{e:.3e}', key='nested checkpoint gradient'))
    # scanned-over inputs: gradients w.r.t. xs (per-step forcing) and init for every nesting equal the flat lax.scan and finite differences
    def fb(c, x):
      c2 = c + 0.1 * jnp.sin(c) * x - 0.05 * c * c
      return c2, c2 * x
    cc0 = jnp.asarray([0.3, -0.7, 1.1])
    xx0 = jnp.asarray(np.random.RandomState(12).randn(total, 3))
    wv = jnp.asarray(np.random.RandomState(13).randn(3))

    def lossx(c, xs_, nested):
      cf, ys = (jax.lax.scan(fb, c, xs_) if nested is None else ti.nested_checkpoint_scan(fb, c, xs_, nested_lengths=nested))
      return jnp.vdot(cf, wv) + jnp.sum(ys * ys)
    gref = jax.grad(lambda c, x: lossx(c, x, None), argnums=(0, 1))(cc0, xx0)
    # central finite difference of the flat reference along one random direction in xs
    dx = jnp.asarray(np.random.RandomState(14).randn(total, 3))
    h = 1e-5
    fd = (lossx(cc0, xx0 + h * dx, None) - lossx(cc0, xx0 - h * dx, None)) / (2 * h)
    for nested in facts(total):
      g = jax.grad(lambda c, x: lossx(c, x, nested), argnums=(0, 1))(cc0, xx0)
      e = max(float(jnp.abs(g[0] - gref[0]).max()), float(jnp.abs(g[1] - gref[1]).max())) / max(1e-300, float(jnp.abs(gref[1]).max()))
      efd = abs(float(jnp.vdot(g[1], dx) - fd)) / max(1e-12, abs(float(fd)))
      nm = f'nested_checkpoint_scan({total} steps, nested_lengths={nested}) with scanned inputs: gradients w.r.t. init and xs equal lax.scan and finite differences'
      (out.ok(nm, 'numeric', sample={'obligation': nm, 'rel': e, 'fd_rel': efd}) if e <= 1e-11 and efd <= 1e-6 else
       out.fail(nm, witness={'total': total, 'nested': nested}, detail=f'vs flat scan {e:.3e}; vs finite difference {efd:.3e}', key='nested checkpoint gradient w.r.t. scanned inputs'))
    # trajectory_from_step / repeated with checkpointing
    for outer, inner in ((3, 4), (4, 3)):
      def loss2(v, ck):
        tr = ti.trajectory_from_step(step, outer, inner, checkpoint_outer=ck) if _has_ck() else ti.trajectory_from_step(step, outer, inner)
        c, ys = tr(unravel(v))
        return jnp.vdot(ravel_pytree(c)[0], w) + jnp.sum(ravel_pytree(ys)[0]) * 1e-3
      if total != 12:
        continue
      g0 = jax.jit(jax.grad(lambda v: loss2(v, False)))(v0)
      g1 = jax.jit(jax.grad(lambda v: loss2(v, True)))(v0) if _has_ck() else g0
      def loss_flat(v):
        c = unravel(v)
        acc = 0.0
        for k in range(outer * inner):
          c = step(c)
          if (k + 1) % inner == 0:
            acc = acc + jnp.sum(ravel_pytree(c)[0]) * 1e-3
        return jnp.vdot(ravel_pytree(c)[0], w) + acc
      gf = jax.jit(jax.grad(loss_flat))(v0)
      e = max(float(jnp.abs(g0 - gf).max()), float(jnp.abs(g1 - gf).max())) / max(1e-300, float(jnp.abs(gf).max()))
      nm = f'trajectory_from_step(outer={outer}, inner={inner}): gradient equals that of the unrolled Python loop (with and without checkpointing)'
      (out.ok(nm, 'numeric') if e <= 1e-11 else out.fail(nm, witness={'outer': outer, 'inner': inner}, detail=f'{e:.3e}', key='trajectory gradient'))
  return out


def _has_ck():
  import inspect
  from dinosaur import time_integration as ti
  return 'checkpoint_outer' in inspect.signature(ti.trajectory_from_step).parameters


def clauses(tier, seed):
  fns = ['dinosaur.primitive_equations.PrimitiveEquations.explicit_terms', 'dinosaur.primitive_equations.PrimitiveEquations.implicit_terms',
         'dinosaur.primitive_equations.PrimitiveEquations.implicit_inverse', 'dinosaur.primitive_equations.MoistPrimitiveEquations.explicit_terms',
         'dinosaur.primitive_equations.PrimitiveEquations.kinetic_energy_tendency', 'dinosaur.shallow_water.ShallowWaterEquations.explicit_terms',
         'dinosaur.held_suarez.HeldSuarezForcing.explicit_terms', 'dinosaur.held_suarez.HeldSuarezForcing.equilibrium_temperature',
         'dinosaur.spherical_harmonic.Grid.to_nodal', 'dinosaur.spherical_harmonic.Grid.to_modal', 'dinosaur.filtering.exponential_filter',
         'dinosaur.filtering.horizontal_diffusion_filter', 'dinosaur.vertical_interpolation.interp', 'dinosaur.vertical_interpolation._dot_interp',
         'dinosaur.vertical_interpolation.linear_interp_with_linear_extrap', 'dinosaur.time_integration.imex_rk_sil3',
         'dinosaur.time_integration.crank_nicolson_rk2', 'dinosaur.time_integration.backward_forward_euler', 'dinosaur.time_integration.semi_implicit_leapfrog',
         'dinosaur.time_integration.step_with_filters', 'dinosaur.time_integration.nested_checkpoint_scan', 'dinosaur.time_integration._inner_nested_scan',
         'dinosaur.time_integration.trajectory_from_step']
  return [
      Clause('static:differentiable fragment: primitive census, polynomial entry points, reviewed kink list', 'static', fns, run_static,
             replay=rerun_replay(run_static), group='jax-a', heavy=True),
      Clause('numeric:complete forward and reverse Jacobians: finite, adjoint, finite differences (special + sampled states)', 'numeric', fns, run_jacobians,
             replay=rerun_replay(run_jacobians), group='jax-b', heavy=True),
      Clause('numeric:checkpointing and scan nesting do not change values or gradients', 'numeric', fns, run_checkpoint,
             replay=rerun_replay(run_checkpoint), group='jax-c', heavy=True),
  ]


MANIFEST = {
    'engine': 'jxa+rtc',
    'technique': ('contract-based: static contract on the traced programs ("built from differentiable primitives; polynomial where claimed; kinks within a reviewed list") '
                  'proved per configuration by jaxpr abstract interpretation; bounded run-time twins: complete forward/reverse Jacobians at special and sampled '
                  'states (finite, adjoint, finite differences), checkpoint/nesting gradient equality over all factorisations'),
    'text': ('other: smoothness of the polynomial entry points (dry/shallow-water tendencies, implicit operators, whole integrator steps, transforms, filters) is proved for all '
             'states per configuration; correctness of the derivatives themselves rests on JAX (A7) and is checked on sampled primal states, complete over directions.'),
    'note': 'trusted: JAX autodiff (A7), jxa rules, A2.',
}
