"""Specification side of C05: the sigma-coordinate primitive equations evaluated pointwise.

Written from the continuous equations (Durran, "Numerical Methods for Fluid Dynamics", sec. 8.6; ECMWF IFS documentation for
the moist terms) and the *documented* vertical finite differences (midpoint rule for sigma integrals, trapezoid rule in log
sigma for the geopotential, the omega/p formula 8.124, averaged centred vertical advection).  Nothing here calls into
dinosaur.primitive_equations: horizontal derivatives are analytic (jax autodiff of closed-form fields of (lambda, theta)),
vertical operations are explicit Python loops over levels.

Fields: on every level the streamfunction psi_k, velocity potential chi_k, temperature T_k, humidity q_k, and ln(p_s),
orography h are polynomials of degree <= 2 in (x, y, z) on the sphere, i.e. band-limited of total wavenumber <= 2.

Equations (a = radius, f = 2 Omega sin(theta), V = (u, v), G_k = delta_k + V_k . grad ln p_s):
  F_k        = sum_{j<=k} G_j dsigma_j                       (midpoint rule)
  sdot_{k+1/2} = sigma_{k+1/2} F_N - F_k                     (zero at the top and bottom)
  adv(X)_k   = 1/2 [ sdot_{k+1/2} (X_{k+1}-X_k)/D_{k+1/2} + sdot_{k-1/2} (X_k-X_{k-1})/D_{k-1/2} ],  D = centre-to-centre distance
  (omega/p)_k = V_k . grad ln p_s - (alpha_k F_k + alpha_{k-1} F_{k-1}) / dsigma_k
  Phi_k      = g h + R sum_j W[k,j] Tv_j ,   W[k,k] = alpha_k, W[k,j] = alpha_j + alpha_{j-1} (j > k)
  alpha_N    = -ln sigma_N, alpha_j = ln(sigma_{j+1}/sigma_j)/2
  N_k        = -(zeta_k + f) k x V_k - adv(V)_k - R Tv_k grad ln p_s
  d zeta_k/dt  = k . curl N_k
  d delta_k/dt = div N_k - laplacian(Phi_k + |V_k|^2/2)
  d T_k/dt     = -V_k . grad T_k - adv(T)_k + kappa Tv_k/(1 + (cpv/cp - 1) q_k) (omega/p)_k
  d ln p_s/dt  = -F_N
  d q_k/dt     = -V_k . grad q_k - adv(q)_k
  Tv = T (1 + (Rv/R - 1) q)   (q = 0: dry equations)
"""
from __future__ import annotations

import numpy as np


def monomials(lam, th):
  import jax.numpy as jnp
  x, y, z = jnp.cos(th) * jnp.cos(lam), jnp.cos(th) * jnp.sin(lam), jnp.sin(th)
  return jnp.stack([jnp.ones_like(x), x, y, z, x * x, x * y, x * z, y * y, y * z, z * z])


class Fields:
  """Closed-form fields; coefficient arrays have shape (levels, 10) (or (10,) for surface fields)."""

  def __init__(self, psi, chi, temp, q, lnps, oro):
    self.psi, self.chi, self.temp, self.q, self.lnps, self.oro = map(np.asarray, (psi, chi, temp, q, lnps, oro))
    self.n = self.psi.shape[0]

  def f(self, name, k=None):
    import jax.numpy as jnp
    c = getattr(self, name)
    c = c if k is None else c[k]
    return lambda lam, th: jnp.dot(jnp.asarray(c), monomials(lam, th))


def _grad(f):
  import jax
  return jax.grad(f, 0), jax.grad(f, 1)


def laplacian(f, a):
  import jax
  import jax.numpy as jnp
  f_ll = jax.grad(jax.grad(f, 0), 0)
  g = lambda lam, th: jnp.cos(th) * jax.grad(f, 1)(lam, th)
  g_t = jax.grad(g, 1)
  return lambda lam, th: f_ll(lam, th) / (a * a * jnp.cos(th) ** 2) + g_t(lam, th) / (a * a * jnp.cos(th))


def pointwise_tendencies(fields: Fields, boundaries, *, radius, omega, gravity, R, kappa, Rv=None, cpv_over_cp=None, moist=False):
  """Returns S(lam, th) -> dict of per-level tendencies and the state fields, all closed-form in (lam, th)."""
  import jax
  import jax.numpy as jnp
  a = radius
  b = np.asarray(boundaries, float)
  n = fields.n
  ds = np.diff(b)
  cen = 0.5 * (b[1:] + b[:-1])
  ctc = np.diff(cen)
  alpha = np.zeros(n)
  for j in range(n - 1):
    alpha[j] = 0.5 * np.log(cen[j + 1] / cen[j])
  alpha[n - 1] = -np.log(cen[n - 1])
  W = np.zeros((n, n))
  for k in range(n):
    W[k, k] = alpha[k]
    for j in range(k + 1, n):
      W[k, j] = alpha[j] + alpha[j - 1]
  eps = (Rv / R) if moist else 1.0
  dlt = cpv_over_cp if moist else 1.0

  psi = [fields.f('psi', k) for k in range(n)]
  chi = [fields.f('chi', k) for k in range(n)]
  T = [fields.f('temp', k) for k in range(n)]
  q = [fields.f('q', k) for k in range(n)]
  lnps = fields.f('lnps')
  oro = fields.f('oro')

  def uv(k):
    p_l, p_t = _grad(psi[k])
    c_l, c_t = _grad(chi[k])
    u = lambda lam, th: -p_t(lam, th) / a + c_l(lam, th) / (a * jnp.cos(th))
    v = lambda lam, th: p_l(lam, th) / (a * jnp.cos(th)) + c_t(lam, th) / a
    return u, v
  U = [uv(k) for k in range(n)]
  zeta = [laplacian(psi[k], a) for k in range(n)]
  delta = [laplacian(chi[k], a) for k in range(n)]
  lp_l, lp_t = _grad(lnps)

  def vdot(k, f):
    f_l, f_t = _grad(f)
    return lambda lam, th: U[k][0](lam, th) * f_l(lam, th) / (a * jnp.cos(th)) + U[k][1](lam, th) * f_t(lam, th) / a

  Gk = [(lambda k: (lambda lam, th: delta[k](lam, th) + vdot(k, lnps)(lam, th)))(k) for k in range(n)]

  def F(k):     # k = -1 .. n-1
    return lambda lam, th: sum(Gk[j](lam, th) * ds[j] for j in range(k + 1)) if k >= 0 else 0.0

  def sdot(k):  # interface below level k (k = 0..n-2); zero outside
    if k < 0 or k > n - 2:
      return lambda lam, th: 0.0
    return lambda lam, th: b[k + 1] * F(n - 1)(lam, th) - F(k)(lam, th)

  def adv(X, k):
    def f(lam, th):
      r = 0.0
      if k + 1 < n:
        r = r + 0.5 * sdot(k)(lam, th) * (X[k + 1](lam, th) - X[k](lam, th)) / ctc[k]
      if k - 1 >= 0:
        r = r + 0.5 * sdot(k - 1)(lam, th) * (X[k](lam, th) - X[k - 1](lam, th)) / ctc[k - 1]
      return r
    return f

  Tv = [(lambda k: (lambda lam, th: T[k](lam, th) * (1 + (eps - 1) * q[k](lam, th))))(k) for k in range(n)]
  us = [U[k][0] for k in range(n)]
  vs = [U[k][1] for k in range(n)]
  fcor = lambda th: 2 * omega * jnp.sin(th)

  def Nvec(k):
    nu = lambda lam, th: (zeta[k](lam, th) + fcor(th)) * vs[k](lam, th) - adv(us, k)(lam, th) - R * Tv[k](lam, th) * lp_l(lam, th) / (a * jnp.cos(th))
    nv = lambda lam, th: -(zeta[k](lam, th) + fcor(th)) * us[k](lam, th) - adv(vs, k)(lam, th) - R * Tv[k](lam, th) * lp_t(lam, th) / a
    return nu, nv

  def curl(nu, nv):
    nv_l = jax.grad(nv, 0)
    g = lambda lam, th: nu(lam, th) * jnp.cos(th)
    g_t = jax.grad(g, 1)
    return lambda lam, th: (nv_l(lam, th) - g_t(lam, th)) / (a * jnp.cos(th))

  def div(nu, nv):
    nu_l = jax.grad(nu, 0)
    g = lambda lam, th: nv(lam, th) * jnp.cos(th)
    g_t = jax.grad(g, 1)
    return lambda lam, th: (nu_l(lam, th) + g_t(lam, th)) / (a * jnp.cos(th))

  def energy(k):
    return lambda lam, th: (gravity * oro(lam, th) + R * sum(W[k, j] * Tv[j](lam, th) for j in range(k, n))
                            + 0.5 * (us[k](lam, th) ** 2 + vs[k](lam, th) ** 2))

  def omega_p(k):
    def f(lam, th):
      r = alpha[k] * F(k)(lam, th)
      if k >= 1:
        r = r + alpha[k - 1] * F(k - 1)(lam, th)
      return vdot(k, lnps)(lam, th) - r / ds[k]
    return f

  def S(lam, th):
    out = {'dzeta': [], 'ddelta': [], 'dT': [], 'dq': [], 'zeta': [], 'delta': [], 'T': [], 'q': []}
    for k in range(n):
      nu, nv = Nvec(k)
      out['dzeta'].append(curl(nu, nv)(lam, th))
      out['ddelta'].append(div(nu, nv)(lam, th) - laplacian(energy(k), a)(lam, th))
      out['dT'].append(-vdot(k, T[k])(lam, th) - adv(T, k)(lam, th)
                       + kappa * Tv[k](lam, th) / (1 + (dlt - 1) * q[k](lam, th)) * omega_p(k)(lam, th))
      out['dq'].append(-vdot(k, q[k])(lam, th) - adv(q, k)(lam, th))
      out['zeta'].append(zeta[k](lam, th))
      out['delta'].append(delta[k](lam, th))
      out['T'].append(T[k](lam, th))
      out['q'].append(q[k](lam, th))
    res = {k_: jnp.stack(v) for k_, v in out.items()}
    res['dlnps'] = -F(n - 1)(lam, th)
    res['lnps'] = lnps(lam, th)
    res['oro'] = oro(lam, th)
    return res
  return S


def evaluate_on_grid(S, grid):
  """Evaluates the pointwise specification on the nodal mesh of `grid`: dict name -> (levels, lon, lat) arrays."""
  import jax
  import jax.numpy as jnp
  lon, sin_lat = grid.nodal_mesh
  lam = jnp.asarray(np.asarray(lon)).ravel()
  th = jnp.arcsin(jnp.asarray(np.asarray(sin_lat))).ravel()
  res = jax.jit(jax.vmap(S))(lam, th)
  shp = np.asarray(lon).shape
  out = {}
  for k, v in res.items():
    v = np.asarray(v)
    out[k] = (np.moveaxis(v, 0, -1).reshape(v.shape[1:] + shp) if v.ndim == 2 else v.reshape(shp))
  return out
