"""C11 -- structural invariants survive any number of steps."""
from __future__ import annotations

import numpy as np

from vlib.core import rerun_replay, Clause, Outcome
from props import common, tendency

LEVEL = 'other'
PE = 'dinosaur.primitive_equations.'
SW = 'dinosaur.shallow_water.'
TI = 'dinosaur.time_integration.'
EXPLANATION = (
    'Invariants: Z (entries outside the mask and the clipped top wavenumber are exactly zero), M0 ((0,0) coefficients of '
    'vorticity/divergence -- and of the shallow-water potential -- unchanged), U (uniform tracer stays uniform), CLK '
    '(sim_time advances by dt, untouched by filters/solve). Layer 2, per configuration: structural-zero, dependence and '
    'constant analysis of the traced programs (static, for all finite inputs, nonlinear tendencies included) and '
    'exact-zero blocks of the matrices of the linear parts (complete over states). Layer 1, deductive for every '
    'integrator: the real step functions are executed on an abstract value domain that carries "is in the invariant '
    'subspace" and on exact scalars for the mean / clock functionals (symx), so closure under one step follows from the '
    'layer-2 closure of F, G, G_inv; with C14 (combinators = iterated step, proved for all step counts) and C15 '
    '(filters diagonal, factor 1 at l=0, scalars untouched) the invariants hold along every trajectory. A bounded '
    'trajectory twin cross-checks the chain.')
ASSUMPTIONS = [
    'A5: structural-zero analysis assumes finite inputs (0*x = 0)',
    'A1: "to rounding" for the clock (accumulated float error of sim_time) and for the (0,0) entries through the float '
    'inverse of the implicit solve (identity to 1e-13, not bit-exact) and through quadrature for the moist correction terms',
    'closure for all step counts uses C14 (repeated/trajectory == iterate) and C15 (filters) as proved there',
    'bounded over configurations (grids, level sets) for layer 2',
]


def _eqs(tier, seed):
  out = []
  for impl in ('real', 'fast'):
    for (M, L, lon, lat) in ((3, 4, 10, 7),) + (((2, 5, 6, 9),) if tier == 'thorough' or impl == 'real' else ()):
      g = common.make_grid(M, L, lon, lat, 'gauss', impl, **({'base_shape_multiple': 4} if impl == 'fast' else {}))
      sig = common.sigma_levels('uneven', 3, seed)
      for cls in ('dry', 'time', 'moist'):
        out.append((f'{cls}:{impl}:M{M}L{L}', impl, g, sig, cls))
  return out


def _tracers(cls):
  return ('specific_humidity',) if cls == 'moist' else ('q',)


def run_static_explicit(ctx):
  jax = common.jx()
  import jax.numpy as jnp
  from vlib import jxa
  out = Outcome()
  out.assumptions.append(ASSUMPTIONS[0])
  for name_, impl, g, sig, cls in _eqs(ctx.tier, ctx.seed):
    rng = np.random.RandomState(5)
    oro = rng.randn(*g.modal_shape) * np.asarray(g.mask) * 0.01
    eq = common.make_primitive(g, sig, 'linear', cls=cls, orography=oro)
    s0 = common.zero_state(eq, tracers=_tracers(cls))
    outs, tree, an, closed = jxa.analyze(eq.explicit_terms, (s0,))
    res = jax.tree_util.tree_unflatten(tree, outs)
    mask = np.asarray(g.mask)
    L = g.total_wavenumbers
    keep = mask.copy()
    keep[:, L - 1:] = False                      # top total wavenumber (and padding) clipped
    leaves = {'vorticity': res.vorticity, 'divergence': res.divergence, 'temperature_variation': res.temperature_variation,
              'log_surface_pressure': res.log_surface_pressure}
    for k, v in res.tracers.items():
      leaves['tracer:' + k] = v
    for lf, av in leaves.items():
      nm = f'{name_}:explicit_terms.{lf}: entries outside mask / at the top wavenumber are structurally zero'
      bad = av.nz & ~np.broadcast_to(keep, av.nz.shape)
      if not av.nz[..., keep].any() and keep.any():
        out.undec(nm, 'analysis claims every resolved entry is zero: vacuous')
      elif not bad.any():
        out.ok(nm, 'static', sample={'obligation': nm, 'zero_entries': int((~np.broadcast_to(keep, av.nz.shape)).sum())})
      else:
        idx = [tuple(int(v) for v in i) for i in np.argwhere(bad)[:4]]
        out.fail(nm, witness={'cfg': name_, 'leaf': lf, 'entries': idx}, detail=f'{int(bad.sum())} entries may be non-zero, e.g. {idx}', key=nm)
    if cls != 'moist':
      for lf in ('vorticity', 'divergence'):
        av = leaves[lf]
        nm = f'{name_}:explicit_terms.{lf}: (0,0) coefficient (global mean tendency) is structurally zero'
        (out.ok(nm, 'static') if not av.nz[..., 0, 0].any() else
         out.fail(nm, witness={'cfg': name_, 'leaf': lf}, detail='(0,0) entry may be non-zero', key=nm))
    if cls in ('time', 'moist'):
      st = res.sim_time
      nm = f'{name_}:explicit_terms.sim_time is the constant 1.0'
      ok = st.is_const and float(st.const) == 1.0
      (out.ok(nm, 'static') if ok else out.fail(nm, witness={'cfg': name_}, detail=f'const={st.const}', key=nm))
      # no other leaf depends on sim_time
      flat_in = jax.tree_util.tree_leaves(s0)
      t_index = [i for i, l in enumerate(jax.tree_util.tree_leaves(jax.tree_util.tree_map(lambda x: x, s0)))]
      # index of sim_time among the input leaves
      marks = jax.tree_util.tree_leaves(type(s0)(0, 0, 0, 0, 1, {k: 0 for k in s0.tracers}))
      ti_ = marks.index(1)
      dep_bad = [lf for lf, av in leaves.items() if ti_ in av.dep]
      nm = f'{name_}:no tendency leaf depends on sim_time'
      (out.ok(nm, 'static') if not dep_bad else out.fail(nm, witness={'cfg': name_, 'leaves': dep_bad}, detail=str(dep_bad), key=nm))
      # implicit terms / inverse
      outs_i, tree_i, _, _ = jxa.analyze(eq.implicit_terms, (s0,))
      ri = jax.tree_util.tree_unflatten(tree_i, outs_i)
      nm = f'{name_}:implicit_terms.sim_time is the constant 0.0'
      ok = ri.sim_time.is_const and float(ri.sim_time.const) == 0.0
      (out.ok(nm, 'static') if ok else out.fail(nm, witness={'cfg': name_}, detail=f'{ri.sim_time.const}', key=nm))
      _, _, _, closed_inv = jxa.analyze(lambda s: eq.implicit_inverse(s, 0.3), (s0,))
      jp = closed_inv.jaxpr
      out_marks = jax.tree_util.tree_leaves(type(s0)(0, 0, 0, 0, 1, {k: 0 for k in s0.tracers}))
      to_ = out_marks.index(1)
      nm = f'{name_}:implicit_inverse returns the input sim_time itself (identity)'
      (out.ok(nm, 'static') if jp.outvars[to_] is jp.invars[ti_] else out.fail(nm, witness={'cfg': name_}, detail='not the input variable', key=nm))
  return out


def run_static_shallow_water(ctx):
  jax = common.jx()
  import jax.numpy as jnp
  from vlib import jxa
  from dinosaur import coordinate_systems as cs, layer_coordinates, shallow_water as sw
  from props import C03
  out = Outcome()
  for impl in ('real', 'fast'):
    g = common.make_grid(3, 4, 10, 7, 'gauss', impl, **({'base_shape_multiple': 4} if impl == 'fast' else {}))
    coords = cs.CoordinateSystem(g, layer_coordinates.LayerCoordinates(2))
    mask = np.asarray(g.mask)
    keep = mask.copy()
    keep[:, g.total_wavenumbers - 1:] = False
    # the orography is a user-supplied constant: an un-truncated mountain (energy in every resolved coefficient, the top total
    # wavenumber included -- what grid.to_modal(nodal_mountain) gives) must not leak into the clipped entries either
    mountain = np.where(mask, 0.3 + 0.1 * np.arange(mask.size).reshape(mask.shape) / mask.size, 0.0)
    for oname, orog in (('flat', None), ('untruncated mountain', mountain)):
      eq = C03._make_sw(sw, coords, np.array([0.8, 1.3]), np.array([1.0, 2.0]), orography=orog)
      z = jnp.zeros(coords.modal_shape)
      # requires: the input state lies in Z (the potential enters the divergence tendency linearly through the Laplacian)
      zm = np.broadcast_to(~keep, coords.modal_shape)
      outs, tree, an, _ = jxa.analyze(eq.explicit_terms, (sw.State(z, z, z),), zero_masks=(sw.State(zm, zm, zm),))
      res = jax.tree_util.tree_unflatten(tree, outs)
      for lf in ('vorticity', 'divergence', 'potential'):
        av = getattr(res, lf)
        nm = f'shallow_water:{impl}:{oname}:explicit_terms.{lf}: masked/top entries structurally zero'
        bad = av.nz & ~np.broadcast_to(keep, av.nz.shape)
        (out.ok(nm, 'static') if not bad.any() and av.nz[..., keep].any() else
         out.fail(nm, witness={'impl': impl, 'leaf': lf, 'orography': oname}, detail=f'{int(bad.sum())} entries outside the clipped triangle may be non-zero', key=nm))
        nm = f'shallow_water:{impl}:{oname}:explicit_terms.{lf}: (0,0) coefficient structurally zero (mean vorticity/divergence/thickness conserved)'
        (out.ok(nm, 'static') if not av.nz[..., 0, 0].any() else
         out.fail(nm, witness={'impl': impl, 'leaf': lf, 'orography': oname}, detail='(0,0) may be non-zero', key=nm))
  return out


def run_linear_parts(ctx):
  """Matrices of implicit_terms / implicit_inverse: invariant subspace Z preserved (exact zeros) and the (0,0)
  vorticity/divergence functionals fixed."""
  jax = common.jx()
  import jax.numpy as jnp
  from jax.flatten_util import ravel_pytree
  from vlib import jxa
  out = Outcome()
  for name_, impl, g, sig, cls in _eqs(ctx.tier, ctx.seed):
    if cls != 'dry':
      continue
    eq = common.make_primitive(g, sig, 'linear', cls=cls)
    s0 = common.zero_state(eq, tracers=('q',))
    x0, unr = ravel_pytree(s0)
    mask = np.asarray(g.mask)
    keep = mask.copy()
    keep[:, g.total_wavenumbers - 1:] = False
    inZ = np.asarray(ravel_pytree(jax.tree_util.tree_map(lambda a: jnp.broadcast_to(jnp.asarray(keep), a.shape), s0))[0]).astype(bool)
    is00 = np.zeros(x0.size, bool)
    marks = jax.tree_util.tree_map(lambda a: jnp.zeros(a.shape), s0)
    def mark00(a):
      return a.at[..., 0, 0].set(1.0)
    m00 = type(s0)(mark00(marks.vorticity), mark00(marks.divergence), marks.temperature_variation, marks.log_surface_pressure, marks.tracers)
    is00 = np.asarray(ravel_pytree(m00)[0]).astype(bool)
    ops = {'implicit_terms': eq.implicit_terms}
    for eta in (0.37, -0.37):
      for meth in ('split', 'blockwise'):
        ops[f'implicit_inverse[{meth},eta={eta}]'] = (lambda eta, meth: lambda s: eq.implicit_inverse(s, eta, method=meth))(eta, meth)
    for opn, fn in ops.items():
      A, _, _, _ = jxa.matrix_of(fn, s0)
      blk = A[~inZ][:, inZ]
      nm = f'{name_}:{opn}: maps the subspace Z into itself (block [outside Z <- Z] exactly zero)'
      (out.ok(nm, 'numeric') if blk.size == 0 or not np.abs(blk).max() else
       out.fail(nm, witness={'cfg': name_, 'op': opn}, detail=f'max |block| {np.abs(blk).max():.3e}', key=nm))
      rows = A[is00]
      if opn == 'implicit_terms':
        nm = f'{name_}:{opn}: (0,0) tendency of vorticity and divergence is exactly zero'
        ok = not np.abs(rows).max()
      else:
        nm = f'{name_}:{opn}: (0,0) coefficients of vorticity and divergence pass through unchanged (to 1e-13)'
        E = rows - np.eye(A.shape[0])[is00]
        ok = np.abs(E).max() <= 1e-13
      (out.ok(nm, 'numeric') if ok else out.fail(nm, witness={'cfg': name_, 'op': opn}, detail='functional not preserved', key=nm))
  return out


def run_uniform_tracer(ctx):
  """For uniform q = c the tracer tendency is linear in the rest of the state (static) with zero matrix (numeric)."""
  jax = common.jx()
  import jax.numpy as jnp
  from vlib import jxa
  out = Outcome()
  for impl in ('real', 'fast'):
    g = common.make_grid(3, 4, 10, 7, 'gauss', impl)
    sig = common.sigma_levels('uneven', 3, ctx.seed)
    eq = common.make_primitive(g, sig, 'linear')
    sp = tendency.primitive_space(eq, impl)
    for c in (1.0, 0.01):
      q = jnp.zeros(eq.coords.modal_shape).at[:, 0, 0].set(c * np.sqrt(4 * np.pi))   # uniform in the horizontal and vertical

      def tr_tend(x):
        st = tendency.primitive_state(sp, x)
        st = type(st)(st.vorticity, st.divergence, st.temperature_variation, st.log_surface_pressure, {'q': q})
        return eq.explicit_terms(st).tracers['q']
      outs, _, an, _ = jxa.analyze(tr_tend, (jnp.zeros(sp.n),))
      d, why = jxa.max_degree(outs)
      nm = f'{impl}:c={c}:tracer tendency of a uniform tracer is affine in the remaining state'
      if d is None:
        out.undec(nm, why)
        continue
      if d > 1:
        # degree-2 terms (u.grad q with q constant vanish numerically, not structurally): evaluate on the degree-d lattice
        mx, arg, cnt = jxa.lattice_max_abs(lambda x: tr_tend(x).ravel(), sp.n, min(d, 3), scale=sp.scale)
        nm2 = f'{impl}:c={c}:uniform tracer has zero tendency on the degree-{d} lattice ({cnt} points)'
        (out.ok(nm2, 'numeric', sample={'obligation': nm2, 'max_abs': mx}) if mx <= 1e-11 * abs(c) * 10 else
         out.fail(nm2, witness={'impl': impl, 'c': c, 'x': [float(v) for v in arg]}, detail=f'max |tendency| {mx:.3e}', key=nm2))
        continue
      out.ok(nm, 'static')
      A, _, _, y0 = jxa.matrix_of(tr_tend, jnp.zeros(sp.n))
      mx = max(float(np.abs(A * sp.scale[None, :]).max()), float(np.abs(y0).max()))
      nm2 = f'{impl}:c={c}:uniform tracer has zero tendency for every state (matrix == 0)'
      (out.ok(nm2, 'numeric', sample={'obligation': nm2, 'max_abs': mx}) if mx <= 1e-10 * abs(c) else
       out.fail(nm2, witness={'impl': impl, 'c': c}, detail=f'max |matrix| {mx:.3e}', key=nm2))
  return out


# ---- layer 1: closure under every integrator step (symx with an abstract "in the subspace" domain) --------------------


class InSub:
  """Abstract value: 'lies in the invariant subspace'. Closed under + and scalar *; nothing else is allowed."""
  __array_priority__ = 1000

  def _lin(self, o):
    if isinstance(o, InSub) or (isinstance(o, (int, float)) and o == 0):
      return InSub()
    return NotImplemented

  __add__ = __radd__ = __sub__ = __rsub__ = _lin

  def __neg__(self):
    return InSub()

  def __mul__(self, c):
    if isinstance(c, InSub):
      return NotImplemented
    return InSub()

  __rmul__ = __mul__

  def __truediv__(self, c):
    if isinstance(c, InSub):
      return NotImplemented
    return InSub()


def run_step_closure(ctx):
  import sympy as sp
  from vlib import symx
  from dinosaur import time_integration as ti
  out = Outcome()
  calls = []

  def eq_sub():
    def chk(x):
      if not isinstance(x, InSub):
        raise TypeError(f'equation applied to {type(x).__name__}: left the subspace domain')
      return InSub()
    return ti.ImplicitExplicitODE.from_functions(chk, chk, lambda x, eta: chk(x))

  integrators = ['backward_forward_euler', 'crank_nicolson_rk2', 'crank_nicolson_rk3', 'crank_nicolson_rk4', 'imex_rk_sil3']
  for integ in integrators:
    nm = f'{integ}: one step maps the invariant subspace into itself given closure of F, G, G_inv (abstract run of the real step function)'
    try:
      r = getattr(ti, integ)(eq_sub(), 0.1)(InSub())
      (out.ok(nm, 'exact') if isinstance(r, InSub) else out.fail(nm, witness={'integrator': integ}, detail=f'result {type(r)}', key=nm))
    except Exception as e:  # pylint: disable=broad-except
      out.fail(nm, witness={'integrator': integ}, detail=f'{type(e).__name__}: {e}', key=nm)
    # functionals: mean (F,G -> 0, G_inv -> identity) and clock (F -> 1, G -> 0, G_inv -> identity), exact scalars
    t = sp.Symbol('t')
    for fn_name, Fv, want in (('mean functional unchanged', 0, t), ('clock advances by dt', 1, t + symx.DT_SYM)):
      eq = ti.ImplicitExplicitODE.from_functions(lambda x, Fv=Fv: x * 0 + Fv, lambda x: x * 0, lambda x, eta: x)
      r = getattr(ti, integ)(eq, symx.DT)(symx.SX(t))
      diff = sp.expand(r.e - want)
      tol = 1e-15 if integ != 'crank_nicolson_rk4' else 1e-12
      coeffs = [abs(float(c)) for c in sp.Poly(diff, t, symx.DT_SYM).coeffs()] if diff != 0 else [0.0]
      nm = f'{integ}: {fn_name} by one step (exact scalars through the real step function, |residual coefficient| <= {tol})'
      (out.ok(nm, 'exact', sample={'obligation': nm, 'residual': str(diff)}) if max(coeffs) <= tol else
       out.fail(nm, witness={'integrator': integ, 'functional': fn_name}, detail=f'step(t) - expected = {diff}', key=nm))
  # leapfrog on pairs
  nm = 'semi_implicit_leapfrog: one step maps pairs in the subspace to pairs in the subspace'
  try:
    a, b = ti.semi_implicit_leapfrog(eq_sub(), 0.1, alpha=0.6)((InSub(), InSub()))
    (out.ok(nm, 'exact') if isinstance(a, InSub) and isinstance(b, InSub) else out.fail(nm, witness={}, detail='left the domain', key=nm))
  except Exception as e:  # pylint: disable=broad-except
    out.fail(nm, witness={}, detail=f'{type(e).__name__}: {e}', key=nm)
  t, al = sp.symbols('t alpha')
  for fn_name, Fv, want in (('mean functional unchanged', 0, (t, t)), ('clock pair (t, t+dt) -> (t+dt, t+2dt)', 1, (t + symx.DT_SYM, t + 2 * symx.DT_SYM))):
    eq = ti.ImplicitExplicitODE.from_functions(lambda x, Fv=Fv: x * 0 + Fv, lambda x: x * 0, lambda x, eta: x)
    start = (symx.SX(t), symx.SX(t)) if Fv == 0 else (symx.SX(t), symx.SX(t + symx.DT_SYM))
    r = ti.semi_implicit_leapfrog(eq, symx.DT, alpha=symx.SX(al))(start)
    ok = all(sp.expand(x.e - w) == 0 for x, w in zip(r, want))
    nm = f'semi_implicit_leapfrog: {fn_name} (all alpha, exact)'
    (out.ok(nm, 'exact') if ok else out.fail(nm, witness={}, detail=str([x.e for x in r]), key=nm))
  # step_with_filters keeps the subspace when every filter does
  nm = 'step_with_filters: step in subspace and subspace-preserving filters => result in subspace'
  f = ti.step_with_filters(lambda u: InSub(), [lambda u, un: un * 0.5, ti.runge_kutta_step_filter(lambda s: s * 0.9)])
  (out.ok(nm, 'exact') if isinstance(f(InSub()), InSub) else out.fail(nm, witness={}, detail='', key=nm))
  out.assumptions.append(ASSUMPTIONS[2])
  return out


def run_trajectory_twin(ctx):
  """Bounded cross-check: real trajectories, every integrator, filter stacks; invariants checked after every step."""
  jax = common.jx()
  import jax.numpy as jnp
  from dinosaur import time_integration as ti
  from dinosaur import coordinate_systems as cs, layer_coordinates, shallow_water as sw
  from props import C03
  out = Outcome()
  rng = np.random.RandomState(ctx.seed + 9)
  steps = 4 if ctx.tier == 'quick' else 12
  dt = 0.01
  for impl in ('real', 'fast'):
    g = common.make_grid(3, 4, 10, 7, 'gauss', impl, **({'base_shape_multiple': 4} if impl == 'fast' else {}))
    mask = np.asarray(g.mask)
    keep = mask.copy()
    keep[:, g.total_wavenumbers - 1:] = False
    sig = common.sigma_levels('uneven', 3, ctx.seed)
    eq = common.make_primitive(g, sig, 'linear', cls='time')
    sp_ = tendency.primitive_space(eq, impl)
    x = jnp.asarray(rng.randn(sp_.n) * sp_.scale * 0.2)
    base = tendency.primitive_state(sp_, x, with_time=True)
    qval = 0.01 * np.sqrt(4 * np.pi)
    s0 = type(base)(base.vorticity, base.divergence, base.temperature_variation, base.log_surface_pressure, base.sim_time,
                    {'q': jnp.zeros(eq.coords.modal_shape).at[:, 0, 0].set(qval)})
    stacks = {
        'none': [],
        'exp+diff': [ti.exponential_step_filter(g, dt, order=2, cutoff=0.4), ti.horizontal_diffusion_step_filter(g, dt, tau=0.05, order=2)],
    }
    integrators = ['imex_rk_sil3', 'crank_nicolson_rk2'] if ctx.tier == 'quick' else ['backward_forward_euler', 'crank_nicolson_rk2', 'crank_nicolson_rk3', 'crank_nicolson_rk4', 'imex_rk_sil3']
    for integ in integrators:
      for sname, filters in stacks.items():
        step = jax.jit(ti.step_with_filters(getattr(ti, integ)(eq, dt), filters))
        s = s0
        worst = dict(Z=0.0, M0=0.0, U=0.0, CLK=0.0)
        for k in range(1, steps + 1):
          s = step(s)
          for a in (s.vorticity, s.divergence, s.temperature_variation, s.log_surface_pressure, s.tracers['q']):
            worst['Z'] = max(worst['Z'], float(jnp.abs(jnp.where(jnp.asarray(keep), 0.0, a)).max()))
          worst['M0'] = max(worst['M0'], float(jnp.abs(s.vorticity[:, 0, 0] - s0.vorticity[:, 0, 0]).max()),
                            float(jnp.abs(s.divergence[:, 0, 0] - s0.divergence[:, 0, 0]).max()))
          q = s.tracers['q']
          worst['U'] = max(worst['U'], float(jnp.abs(q.at[:, 0, 0].set(0.0)).max()), float(jnp.abs(q[:, 0, 0] - qval).max()))
          worst['CLK'] = max(worst['CLK'], abs(float(s.sim_time) - k * dt))
        nm = f'{impl}:{integ}:filters={sname}:{steps} steps: Z exact, M0/U/CLK to rounding'
        ok = worst['Z'] == 0.0 and worst['M0'] <= 1e-13 and worst['U'] <= 1e-12 and worst['CLK'] <= 1e-13
        (out.ok(nm, 'numeric', sample={'obligation': nm, **worst}) if ok else
         out.fail(nm, witness={'impl': impl, 'integrator': integ, 'filters': sname, **worst}, detail=str(worst), key=nm))
    # shallow water with leapfrog: mean thickness conserved
    coords = cs.CoordinateSystem(g, layer_coordinates.LayerCoordinates(2))
    mountain = np.where(mask, 0.05 * rng.randn(*mask.shape), 0.0)          # un-truncated: energy at the top total wavenumber too
    mountain[0, 0] = 0.0
    eqs = C03._make_sw(sw, coords, np.array([0.8, 1.3]), np.array([1.0, 2.0]), orography=mountain)
    sps = tendency.sw_space(eqs, impl)
    xs = jnp.asarray(rng.randn(sps.n) * 0.2)
    st = tendency.sw_state(sps, xs)
    st = sw.State(st.vorticity, st.divergence, st.potential.at[:, 0, 0].add(0.7))
    for alpha in (0.5, 0.7):
      filters = [ti.exponential_leapfrog_step_filter(g, dt, order=2, cutoff=0.4), ti.robert_asselin_leapfrog_filter(0.05)]
      step = jax.jit(ti.step_with_filters(ti.semi_implicit_leapfrog(eqs, dt, alpha), filters))
      pair = (st, st)
      worst = dict(Z=0.0, M0=0.0)
      for k in range(steps):
        pair = step(pair)
        for s in pair:
          for a in (s.vorticity, s.divergence, s.potential):
            worst['Z'] = max(worst['Z'], float(jnp.abs(jnp.where(jnp.asarray(keep), 0.0, a)).max()))
          worst['M0'] = max(worst['M0'], float(jnp.abs(s.potential[:, 0, 0] - st.potential[:, 0, 0]).max()),
                            float(jnp.abs(s.vorticity[:, 0, 0]).max()), float(jnp.abs(s.divergence[:, 0, 0]).max()))
      nm = f'{impl}:shallow water over an un-truncated mountain, leapfrog alpha={alpha} + exponential(cutoff=0.4) + Robert-Asselin: top wavenumber exactly zero, mean thickness/vorticity/divergence conserved'
      ok = worst['Z'] == 0.0 and worst['M0'] <= 1e-13
      (out.ok(nm, 'numeric', sample={'obligation': nm, **worst}) if ok else out.fail(nm, witness={'impl': impl, 'alpha': alpha, **worst}, detail=str(worst), key=nm))
  return out


def run_moist_means(ctx):
  """Moist class: the humidity corrections are discrete divergences / curls only through quadrature, so the global-mean (0,0) tendencies of
  vorticity and divergence vanish to rounding, not structurally.  Sampled *rough* states (humidity, temperature, surface pressure with energy up
  to the highest retained wavenumber), explicit tendency and a short filtered trajectory."""
  jax = common.jx()
  import jax.numpy as jnp
  from dinosaur import time_integration as ti
  out = Outcome()
  rng = np.random.RandomState(ctx.seed + 77)
  for impl in ('real', 'fast'):
    g = common.make_grid(4, 5, 12, 9, 'gauss', impl, **({'base_shape_multiple': 4} if impl == 'fast' else {}))
    sig = common.sigma_levels('uneven', 3, ctx.seed)
    eq = common.make_primitive(g, sig, 'linear', cls='moist')
    sp_ = tendency.primitive_space(eq, impl, tracers=('specific_humidity',))
    worst_t, worst_s, big = 0.0, 0.0, 0.0
    for k in range(3 if ctx.tier == 'quick' else 10):
      st = tendency.primitive_state(sp_, jnp.asarray(rng.randn(sp_.n) * sp_.scale * 0.3), with_time=True)
      tr = dict(st.tracers)
      tr['specific_humidity'] = tr['specific_humidity'].at[:, 0, 0].add(0.01 * np.sqrt(4 * np.pi))
      st = type(st)(st.vorticity, st.divergence, st.temperature_variation, st.log_surface_pressure, st.sim_time, tr)
      t = eq.explicit_terms(st)
      big = max(big, float(jnp.abs(t.divergence).max()), float(jnp.abs(t.vorticity).max()))
      worst_t = max(worst_t, float(jnp.abs(t.divergence[:, 0, 0]).max()), float(jnp.abs(t.vorticity[:, 0, 0]).max()))
      dt = 0.01
      step = jax.jit(ti.step_with_filters(ti.imex_rk_sil3(eq, dt), [ti.exponential_step_filter(g, dt, order=2, cutoff=0.4)]))
      s = st
      for _ in range(3):
        s = step(s)
      worst_s = max(worst_s, float(jnp.abs(s.divergence[:, 0, 0] - st.divergence[:, 0, 0]).max()), float(jnp.abs(s.vorticity[:, 0, 0] - st.vorticity[:, 0, 0]).max()))
    nm = f'{impl}: moist explicit tendency: global means of vorticity / divergence tendencies vanish to rounding on rough states'
    (out.ok(nm, 'numeric', sample={'obligation': nm, 'max_mean_tendency': worst_t, 'largest_tendency': big}) if worst_t <= 1e-12 * max(1.0, big) else
     out.fail(nm, witness={'impl': impl, 'max_mean_tendency': worst_t, 'largest_tendency': big}, detail=f'max |(0,0) tendency| = {worst_t:.3e} (largest tendency {big:.3e})', key=nm))
    nm = f'{impl}: moist imex_rk_sil3 + exponential filter, 3 steps from rough states: global means of vorticity / divergence unchanged to rounding'
    (out.ok(nm, 'numeric', sample={'obligation': nm, 'max_drift': worst_s}) if worst_s <= 1e-12 * max(1.0, big) * 0.03 + 1e-15 else
     out.fail(nm, witness={'impl': impl, 'max_drift': worst_s}, detail=f'max drift of the (0,0) coefficients = {worst_s:.3e}', key=nm))
  return out


def replay_invariants(w):
  """Native re-run: a few steps of the real equations (primitive with time / tracer; shallow water over an un-truncated mountain)
  from an admissible state; reports the first broken invariant with its numbers."""
  jax = common.jx()
  import jax.numpy as jnp
  from dinosaur import time_integration as ti
  from dinosaur import coordinate_systems as cs, layer_coordinates, shallow_water as sw
  from props import C03
  rng = np.random.RandomState(3)
  dt = 0.01
  msgs = []
  for impl in ('real', 'fast'):
    g = common.make_grid(3, 4, 10, 7, 'gauss', impl, **({'base_shape_multiple': 4} if impl == 'fast' else {}))
    mask = np.asarray(g.mask)
    keep = mask.copy()
    keep[:, g.total_wavenumbers - 1:] = False
    coords = cs.CoordinateSystem(g, layer_coordinates.LayerCoordinates(2))
    mountain = np.where(mask, 0.05 * rng.randn(*mask.shape), 0.0)
    mountain[0, 0] = 0.0
    eqs = C03._make_sw(sw, coords, np.array([0.8, 1.3]), np.array([1.0, 2.0]), orography=mountain)
    sps = tendency.sw_space(eqs, impl)
    st = tendency.sw_state(sps, jnp.asarray(rng.randn(sps.n) * 0.2))
    st = sw.State(st.vorticity, st.divergence, st.potential.at[:, 0, 0].add(0.7))
    s = st
    step = ti.crank_nicolson_rk2(eqs, dt)
    for k in range(1, 4):
      s = step(s)
      z = max(float(jnp.abs(jnp.where(jnp.asarray(keep), 0.0, a)).max()) for a in (s.vorticity, s.divergence, s.potential))
      m0 = max(float(jnp.abs(s.potential[:, 0, 0] - st.potential[:, 0, 0]).max()), float(jnp.abs(s.vorticity[:, 0, 0]).max()), float(jnp.abs(s.divergence[:, 0, 0]).max()))
      if z != 0.0 or m0 > 1e-13:
        msgs.append(f'{impl}: shallow water over an un-truncated mountain, crank_nicolson_rk2 step {k}: max |entry outside the clipped triangle| = {z:.3e}, drift of the means = {m0:.3e}')
        break
    sig = common.sigma_levels('uneven', 3, 0)
    eq = common.make_primitive(g, sig, 'linear', cls='time')
    sp_ = tendency.primitive_space(eq, impl)
    base = tendency.primitive_state(sp_, jnp.asarray(rng.randn(sp_.n) * sp_.scale * 0.2), with_time=True)
    qval = 0.01 * np.sqrt(4 * np.pi)
    s0 = type(base)(base.vorticity, base.divergence, base.temperature_variation, base.log_surface_pressure, base.sim_time,
                    {'q': jnp.zeros(eq.coords.modal_shape).at[:, 0, 0].set(qval)})
    s = s0
    step = ti.step_with_filters(ti.imex_rk_sil3(eq, dt), [ti.exponential_step_filter(g, dt, order=2, cutoff=0.4)])
    for k in range(1, 4):
      s = step(s)
      z = max(float(jnp.abs(jnp.where(jnp.asarray(keep), 0.0, a)).max()) for a in (s.vorticity, s.divergence, s.temperature_variation, s.log_surface_pressure, s.tracers['q']))
      m0 = max(float(jnp.abs(s.vorticity[:, 0, 0] - s0.vorticity[:, 0, 0]).max()), float(jnp.abs(s.divergence[:, 0, 0] - s0.divergence[:, 0, 0]).max()))
      q = s.tracers['q']
      u = max(float(jnp.abs(q.at[:, 0, 0].set(0.0)).max()), float(jnp.abs(q[:, 0, 0] - qval).max()))
      clk = abs(float(s.sim_time) - k * dt)
      if z != 0.0 or m0 > 1e-13 or u > 1e-12 or clk > 1e-13:
        msgs.append(f'{impl}: primitive equations with time, imex_rk_sil3 + exponential filter step {k}: outside clipped triangle {z:.3e}, mean drift {m0:.3e}, tracer non-uniformity {u:.3e}, clock error {clk:.3e}')
        break
  return bool(msgs), ('; '.join(msgs) if msgs else 'invariants hold along the re-run trajectories (shallow water over a mountain, primitive equations with time and tracer)')


def clauses(tier, seed):
  fns = [PE + 'PrimitiveEquations.explicit_terms', PE + 'PrimitiveEquations.implicit_terms', PE + 'PrimitiveEquations.implicit_inverse',
         PE + 'PrimitiveEquationsWithTime.explicit_terms', PE + 'PrimitiveEquationsWithTime.implicit_terms',
         PE + 'PrimitiveEquationsWithTime.implicit_inverse', PE + 'MoistPrimitiveEquations.explicit_terms',
         'dinosaur.spherical_harmonic.Grid.clip_wavenumbers']
  integ = [TI + n for n in ('backward_forward_euler', 'crank_nicolson_rk2', 'low_storage_runge_kutta_crank_nicolson',
                            'imex_runge_kutta', 'semi_implicit_leapfrog', 'step_with_filters')]
  return [
      Clause('static:explicit tendencies: structural zeros (mask, top wavenumber, means), clock constants, dependence', 'static', fns,
             run_static_explicit, replay=replay_invariants, group='jax-a', heavy=True),
      Clause('static:shallow-water explicit tendencies: structural zeros and conserved means', 'static',
             [SW + 'ShallowWaterEquations.explicit_terms'], run_static_shallow_water, replay=replay_invariants, group='jax-b', heavy=True),
      Clause('numeric:linear parts preserve Z and the mean functionals (exact-zero blocks)', 'numeric', fns, run_linear_parts, replay=replay_invariants, group='jax-c', heavy=True),
      Clause('static+numeric:uniform tracer stays uniform', 'numeric', fns, run_uniform_tracer, replay=replay_invariants, group='jax-d', heavy=True),
      Clause('exact:closure of the invariants under one step of every integrator (abstract/exact runs of the real step functions)', 'exact',
             integ, run_step_closure, group='symx'),
      Clause('numeric:moist global-mean vorticity / divergence tendencies vanish to rounding (sampled rough states, tendency and short trajectory)', 'numeric', fns, run_moist_means,
             replay=rerun_replay(run_moist_means), group='jax-f', heavy=True),
      Clause('twin:trajectories keep the invariants [bounded]', 'numeric', fns + integ, run_trajectory_twin, replay=replay_invariants, group='jax-e', heavy=True),
  ] + _operator_clauses()


def _operator_clauses():
  """All sizes: every shallow-water explicit tendency is `clip_wavenumbers(...)` of an expression that contains the orography (operator-expression contract)."""
  from contracts import wind_contracts
  return wind_contracts.sw_clauses() + wind_contracts.pe_clauses()


MANIFEST = {
    'engine': 'pyvc+jxa+symx',
    'technique': 'contract-based: shallow-water explicit tendencies proved to be clip_wavenumbers(...) of the documented operator expression with the orography inside (pyvc operator-algebra mode, all sizes); structural-zero/constant/dependence analysis of the traced tendencies (all inputs), exact-zero matrix blocks for the linear parts, abstract-domain and exact-scalar runs of the real step functions for closure under every integrator; inductive step count via C14',
    'text': ('other: layer 1 (closure under every integrator and filter stack, hence every step count with C14) is deductive; layer 2 is deductive per '
             'configuration for the nonlinear tendencies (static analysis, all finite inputs) and complete-over-states numeric for the linear parts; '
             'bounded over grids/level sets; moist (0,0) corrections and the uniform tracer hold to rounding only and are checked numerically.'),
    'note': 'trusted: A5 finite inputs, jxa rules (conservative), C14/C15 results used for the induction over steps and filters, A1 for "to rounding" parts.',
}
