"""C07 -- sharded (model-parallel) execution equals single-device execution."""
from __future__ import annotations

import itertools
import os

# 8 virtual CPU devices; must be set before JAX initialises in the worker process that imports this module
if '--xla_force_host_platform_device_count' not in os.environ.get('XLA_FLAGS', ''):
  os.environ['XLA_FLAGS'] = (os.environ.get('XLA_FLAGS', '') + ' --xla_force_host_platform_device_count=8').strip()

import numpy as np

from vlib.core import Clause, Outcome, rerun_replay
from props import common

LEVEL = 'other'
SH = 'dinosaur.spherical_harmonic.'
JNU = 'dinosaur.jax_numpy_utils.'
EXPLANATION = (
    'shard_map programs are deterministic functions of (shard index, local data), so sharded == unsharded is a functional '
    'equality. Deductive: (i) the communication schedules of the real _allgather_matmul_twoway / _matmul_reducescatter_twoway / '
    '_parallel_dot_cumsum are executed, for every even axis size 2..16 and every device index, in an SPMD reference interpreter '
    'over symbolic chunk labels (exact, complete over data for each axis size): every device accumulates each (lhs chunk, rhs '
    'shard) pair exactly once / the global prefix sum; (ii) pyvc VCs for all sizes: the sharded longitude derivative (the real `differentiate` closure on shard s of any x-size equals the unsharded derivative restricted to the shard), vertical pad/crop '
    '(crop(pad(x)) == x, padding at the end, multiple of z), Fast modal/nodal shapes. Bounded: on 8 virtual CPU devices, for the '
    'listed (z,x,y) meshes and level counts not divisible by z: transforms and every linear Grid operator as matrices on the '
    'complete basis, cumsum/reverse_cumsum, sharded_einsum patterns x gather/scatter x argument order, filters, implicit '
    'terms/inverse (all methods), dry/moist explicit terms and 3 SIL3 steps -- equal to the unsharded result after removing '
    'padding, all outputs finite including the padded region.')
ASSUMPTIONS = [
    'A2: float64, tolerance 1e-11 (linear, complete bases) / 1e-9 (nonlinear, sampled states)',
    'bounded over mesh shapes with at most 8 devices, grids, level counts; SPMD semantics of shard_map on virtual CPU devices (no real multi-host schedule)',
    'SPMD reference interpreter: lax.ppermute / all_gather / axis_index / psum / fori_loop / dynamic_slice_in_dim given their documented semantics (A8)',
]


def _meshes(tier):
  quick = [(2, 1, 1), (1, 2, 1), (1, 1, 2), (1, 2, 2), (2, 2, 2), (4, 2, 1)]
  if tier == 'quick':
    return quick
  out = []
  for n in (1, 2, 4, 8):
    for z in (1, 2, 4, 8):
      for x in (1, 2, 4, 8):
        for y in (1, 2, 4, 8):
          if z * x * y == n:
            out.append((z, x, y))
  return out


def _mesh(shape):
  import jax
  n = int(np.prod(shape))
  return jax.sharding.Mesh(np.array(jax.devices()[:n]).reshape(shape), ['z', 'x', 'y'])


def _grid(mesh=None, M=4, L=5, lon=12, lat=6, **opts):
  import functools
  from dinosaur import spherical_harmonic as sh
  impl = functools.partial(sh.FastSphericalHarmonics, **opts) if opts else sh.FastSphericalHarmonics
  return sh.Grid(longitude_wavenumbers=M, total_wavenumbers=L, longitude_nodes=lon, latitude_nodes=lat,
                 spherical_harmonics_impl=impl, spmd_mesh=mesh)


def _pad_to(x, shape2):
  """Pads the two trailing axes of x with zeros up to shape2."""
  px, py = shape2[0] - x.shape[-2], shape2[1] - x.shape[-1]
  return np.pad(np.asarray(x), [(0, 0)] * (x.ndim - 2) + [(0, px), (0, py)])


def _trim_to(x, shape2):
  return np.asarray(x)[..., :shape2[0], :shape2[1]]


def _rel(a, b):
  a, b = np.asarray(a), np.asarray(b)
  if not (np.all(np.isfinite(a)) and np.all(np.isfinite(b))):
    return np.inf
  return float(np.abs(a - b).max() / max(1.0, np.abs(b).max()))


def run_transforms(ctx):
  out = Outcome()
  # tiny grid: complete bases; medium grid: the resolved wavenumbers span several x- and y-shards (on the tiny grid they all sit in shard 0)
  out.merge(_run_transforms(ctx, {}, 'tiny(M4,L5)'))
  out.merge(_run_transforms(ctx, dict(M=20, L=21, lon=64, lat=32), 'medium(M20,L21)', ops=('to_nodal', 'd_dlon', 'cos_lat_d_dlat', 'clip_wavenumbers'),
                            meshes=[(1, 2, 1), (1, 4, 2), (2, 2, 2), (1, 2, 4)] if ctx.tier == 'quick' else None, levels=(3,)))
  return out


def _run_transforms(ctx, gkw, gname, ops=None, meshes=None, levels=(3, 5)):
  jax = common.jx()
  import jax.numpy as jnp
  out = Outcome()
  _grid0 = _grid
  _grid_ = lambda mesh, **o: _grid0(mesh, **gkw, **o)
  g0 = _grid_(None)
  m0, n0 = g0.modal_shape, g0.nodal_shape
  nm_, nn_ = int(np.prod(m0)), int(np.prod(n0))
  if nm_ <= 64:
    modal_basis = np.eye(nm_).reshape((nm_,) + m0) * np.asarray(g0.mask)[None]
    nodal_basis = np.eye(nn_).reshape((nn_,) + n0)
  else:
    sel = np.argwhere(np.asarray(g0.mask))
    modal_basis = np.zeros((len(sel),) + m0)
    modal_basis[np.arange(len(sel)), sel[:, 0], sel[:, 1]] = 1.0
    # nodal side: a spanning set of the band-limited nodal fields (images of the modal basis) instead of all grid-point deltas
    nodal_basis = None
  ops_modal = {
      'to_nodal': lambda g: g.to_nodal, 'd_dlon': lambda g: g.d_dlon, 'laplacian': lambda g: g.laplacian,
      'inverse_laplacian': lambda g: g.inverse_laplacian, 'cos_lat_d_dlat': lambda g: g.cos_lat_d_dlat,
      'sec_lat_d_dlat_cos2': lambda g: g.sec_lat_d_dlat_cos2, 'clip_wavenumbers': lambda g: g.clip_wavenumbers,
  }
  if ops:
    ops_modal = {k: v for k, v in ops_modal.items() if k in ops}
  # complete basis restricted to the resolved (masked-in) coefficients
  sel = np.argwhere(np.asarray(g0.mask))
  ref = {}
  for k, f in ops_modal.items():
    ref[k] = np.asarray(f(g0)(jnp.asarray(modal_basis)))
  if nodal_basis is None:
    nodal_basis = ref['to_nodal']
  ref['to_modal'] = np.asarray(g0.to_modal(jnp.asarray(nodal_basis)))
  for shape in (meshes or _meshes(ctx.tier)):
    mesh = _mesh(shape)
    for opts in ({},) + (({'stacked_fourier_transforms': False}, {'reverse_einsum_arg_order': True}) if ctx.tier == 'thorough' or shape == (1, 2, 2) else ()):
      g = _grid_(mesh, **opts)
      ms, ns = g.modal_shape, g.nodal_shape
      tag = f'{gname}:mesh{shape}{opts or ""}'
      wit = {'mesh': list(shape), 'opts': {k: str(v) for k, v in opts.items()}}
      xb = jnp.asarray(_pad_to(modal_basis, ms))
      worst, finite, name_w = 0.0, True, ''
      for k, f in ops_modal.items():
        y = np.asarray(f(g)(xb))
        finite &= bool(np.all(np.isfinite(y)))
        tgt = n0 if k == 'to_nodal' else m0
        e = _rel(_trim_to(y, tgt), ref[k])
        if e > worst:
          worst, name_w = e, k
      y = np.asarray(g.to_modal(jnp.asarray(_pad_to(nodal_basis, ns))))
      finite &= bool(np.all(np.isfinite(y)))
      e = _rel(_trim_to(y, m0), ref['to_modal'])
      if e > worst:
        worst, name_w = e, 'to_modal'
      nm = f'{tag}: transforms and linear Grid operators on the complete basis == unsharded (after removing padding); finite everywhere'
      if worst <= 1e-11 and finite:
        out.ok(nm, 'numeric', sample={'obligation': nm, 'worst_rel': worst, 'basis': nm_ + nn_})
      else:
        out.fail(nm, witness=wit, detail=f'worst {worst:.3e} in {name_w}; finite={finite}', key=f'transforms:{name_w}')
      # levels not divisible by z (vertical padding inside the transforms)
      for K in levels:
        x = np.random.RandomState(K).randn(K, *m0) * np.asarray(g0.mask)
        a = _trim_to(g.to_nodal(jnp.asarray(_pad_to(x, ms))), n0)
        b = np.asarray(g0.to_nodal(jnp.asarray(x)))
        xn = np.random.RandomState(K + 1).randn(K, *n0)
        c = _trim_to(g.to_modal(jnp.asarray(_pad_to(xn, ns))), m0)
        d = np.asarray(g0.to_modal(jnp.asarray(xn)))
        e = max(_rel(a, b), _rel(c, d))
        nm = f'{tag}: {K} levels (not divisible by z={shape[0]}): to_nodal / to_modal == unsharded, level order preserved'
        (out.ok(nm, 'numeric') if e <= 1e-11 else out.fail(nm, witness=dict(wit, levels=K), detail=f'{e:.3e}', key='transforms:vertical padding'))
  return out


def run_cumsum_einsum(ctx):
  jax = common.jx()
  import jax.numpy as jnp
  from jax.sharding import NamedSharding, PartitionSpec as P
  from dinosaur import jax_numpy_utils as jnu
  out = Outcome()
  for shape in _meshes(ctx.tier):
    mesh = _mesh(shape)
    z, x, y = shape
    wit = {'mesh': list(shape)}
    # cumsum along a sharded axis (size divisible by the axis size)
    for axis, spec, size in ((0, P('z', None, None), 4 * z), (1, P(None, 'x', None), 2 * x), (2, P(None, None, 'y'), 3 * y), (0, P('z', 'x', 'y'), 2 * z)):
      shp = [2 * z, 2 * x, 2 * y]
      shp[axis] = size
      a = np.random.RandomState(7).randn(*shp)
      sh_ = NamedSharding(mesh, spec)
      xa = jax.device_put(jnp.asarray(a), sh_)
      for rev in (False, True):
        f = jnu.reverse_cumsum if rev else jnu.cumsum
        got = np.asarray(f(xa, axis, method='dot', sharding=sh_))
        want = np.flip(np.cumsum(np.flip(a, axis), axis), axis) if rev else np.cumsum(a, axis)
        e = _rel(got, want)
        nm = f'mesh{shape}: {"reverse_" if rev else ""}cumsum axis {axis} spec {spec} == global prefix sum'
        (out.ok(nm, 'numeric') if e <= 1e-12 else out.fail(nm, witness=dict(wit, axis=axis, reverse=rev), detail=f'{e:.3e}', key='cumsum'))
    # sharded_einsum: the transform patterns
    pats = [('mj,zmx->zjx', (None, 'x', 'y'), (None, 'x', 'y'), 0, 1), ('jm,zjx->zmx', (None, 'x', 'y'), (None, 'x', 'y'), 0, 1),
            ('xl,zmx->zml', (None, 'x', 'y'), (None, 'x', 'y'), 0, 2), ('lx,zml->zmx', (None, 'x', 'y'), (None, 'x', 'y'), 0, 2),
            ('mj,mx->jx', ('x', 'y'), ('x', 'y'), 0, 0)]
    for sub, rs, os_, _, _ in pats:
      lhs_s, rest = sub.split(',')
      rhs_s, out_s = rest.split('->')
      dims = {'z': 3, 'm': 4 * x, 'j': 2 * x, 'x': 4 * y, 'l': 2 * y}
      rng = np.random.RandomState(11)
      lhs = rng.randn(*[dims[c] for c in lhs_s])
      rhs = rng.randn(*[dims[c] for c in rhs_s])
      want = np.einsum(sub, lhs, rhs)
      # is the reduced axis sharded?  (sharded_einsum requires exactly one sharded reduce and one sharded transfer axis)
      for gather in (True, False, None):
        for rev in (False, True):
          nm = f'mesh{shape}: sharded_einsum {sub} gather_inputs={gather} reverse_arg_order={rev} == einsum'
          try:
            got = jnu.sharded_einsum(sub, lhs, jax.device_put(jnp.asarray(rhs), NamedSharding(mesh, P(*rs))), gather_inputs=gather,
                                     reverse_arg_order=rev, precision='highest', mesh=mesh, rhs_spec=P(*rs), out_spec=P(*os_))
          except ValueError as e:
            if 'axis_size must be 1 or even' in str(e) or 'sharded axes' in str(e):
              continue
            out.fail(nm, witness=dict(wit, pattern=sub), detail=f'raised {e}', key='sharded_einsum raises')
            continue
          e = _rel(got, want)
          (out.ok(nm, 'numeric') if e <= 1e-12 else out.fail(nm, witness=dict(wit, pattern=sub, gather=gather, rev=rev), detail=f'{e:.3e}', key='sharded_einsum'))
  return out


def _coords(mesh, layers, seed, **opts):
  from dinosaur import coordinate_systems as cs
  g = _grid(None, **opts)
  sig = common.sigma_levels('uneven', layers, seed)
  return cs.CoordinateSystem(g, sig, spmd_mesh=mesh)


def _pad_state(tree, ms):
  import jax
  import jax.numpy as jnp
  return jax.tree_util.tree_map(lambda a: jnp.asarray(_pad_to(a, ms)) if np.ndim(a) >= 2 else a, tree)


def _trim_state(tree, m0):
  import jax
  return jax.tree_util.tree_map(lambda a: _trim_to(a, m0) if np.ndim(a) >= 2 else np.asarray(a), tree)


def _tree_rel(a, b):
  import jax
  la, lb = jax.tree_util.tree_leaves(a), jax.tree_util.tree_leaves(b)
  return max(_rel(x, y) for x, y in zip(la, lb))


def _tree_finite(a):
  import jax
  return all(bool(np.all(np.isfinite(np.asarray(x)))) for x in jax.tree_util.tree_leaves(a))


def _random_state(coords, cls, seed, amp=1.0):
  import jax.numpy as jnp
  from dinosaur import primitive_equations as pe
  g = coords.horizontal
  mask = np.asarray(g.mask) * (np.arange(g.modal_shape[1]) < g.total_wavenumbers - 1)[None]
  rng = np.random.RandomState(seed)
  K = coords.vertical.layers

  def f(k, a, zero_mean=False):
    v = rng.randn(k, *g.modal_shape) * mask * a
    if zero_mean:
      v[:, 0, 0] = 0
    return jnp.asarray(v)
  tr = {'specific_humidity': f(K, 0.002 * amp)} if cls == 'moist' else {}
  if cls == 'moist':
    tr['specific_humidity'] = tr['specific_humidity'].at[:, 0, 0].add(0.01 * np.sqrt(4 * np.pi))
  args = (f(K, 0.3 * amp, True), f(K, 0.3 * amp, True), f(K, 5.0 * amp), f(1, 0.05 * amp))
  if cls == 'moist':
    return pe.StateWithTime(*args, jnp.asarray(0.0), tr)
  return pe.State(*args, tr)


def run_model(ctx, only_cls=None):
  jax = common.jx()
  import jax.numpy as jnp
  from dinosaur import filtering, primitive_equations as pe, time_integration as ti
  out = Outcome()
  specs = common.physics_specs()
  # the dycore's vertical integrals require a level count divisible by z (only Grid operations pad the level axis)
  cases = [(4, 'dry'), (4, 'moist')] if ctx.tier == 'quick' else [(4, 'dry'), (4, 'moist'), (8, 'dry'), (8, 'moist')]
  cases = [c for c in cases if only_cls is None or c[1] == only_cls]
  J = jax.jit
  refs = {}
  for layers, cls in cases:
    c0 = _coords(None, layers, ctx.seed)
    eq0 = common.make_primitive(c0.horizontal, c0.vertical, 'linear', cls=cls, specs=specs)
    states = [_random_state(c0, cls, 40 + i, amp) for i, amp in enumerate((1.0,) if ctx.tier == 'quick' else (0.1, 1.0))]
    dt = 0.01
    step0 = jax.jit(ti.imex_rk_sil3(eq0, dt))
    fl0 = [filtering.exponential_filter(c0.horizontal, attenuation=8, order=2), filtering.horizontal_diffusion_filter(c0.horizontal, 0.01, 2)]
    sf0 = ti.horizontal_diffusion_step_filter(c0.horizontal, dt, tau=0.1, order=2)
    r = []
    for s in states:
      d = {'explicit_terms': J(eq0.explicit_terms)(s), 'implicit_terms': J(eq0.implicit_terms)(s)}
      for method in (('split', 'stacked', 'blockwise') if cls == 'dry' else (None,)):
        d[f'implicit_inverse[{method or "default"}]'] = J(lambda s_, m_=method: eq0.implicit_inverse(s_, 0.37, **({'method': m_} if m_ else {})))(s)
      s3 = s
      for _ in range(3):
        s3 = step0(s3)
      d['3 x imex_rk_sil3'] = s3
      d['exponential_filter'] = J(fl0[0])(s)
      d['horizontal_diffusion_filter'] = J(fl0[1])(s)
      d['horizontal_diffusion_step_filter'] = J(sf0)(s, s)
      r.append(d)
    refs[(layers, cls)] = (c0, states, r)
  meshes = [(2, 1, 1), (1, 2, 2), (2, 2, 2)] if ctx.tier == 'quick' else _meshes(ctx.tier)
  for shape in meshes:
    mesh = _mesh(shape)
    for layers, cls in cases:
      if layers % shape[0]:
        continue
      c0, states, ref = refs[(layers, cls)]
      cm = _coords(mesh, layers, ctx.seed)
      ms, m0 = cm.horizontal.modal_shape, c0.horizontal.modal_shape
      eq = common.make_primitive(cm.horizontal, cm.vertical, 'linear', cls=cls, specs=specs, orography=np.zeros(ms))
      eq = type(eq)(eq.reference_temperature, jnp.zeros(ms), cm, specs)
      dt = 0.01
      step = jax.jit(ti.imex_rk_sil3(eq, dt))
      fl = [filtering.exponential_filter(cm.horizontal, attenuation=8, order=2), filtering.horizontal_diffusion_filter(cm.horizontal, 0.01, 2)]
      sf = ti.horizontal_diffusion_step_filter(cm.horizontal, dt, tau=0.1, order=2)
      worst = {}
      finite = True
      for s, r in zip(states, ref):
        sp = _pad_state(s, ms)
        got = {'explicit_terms': J(eq.explicit_terms)(sp), 'implicit_terms': J(eq.implicit_terms)(sp)}
        for method in (('split', 'stacked', 'blockwise') if cls == 'dry' else (None,)):
          got[f'implicit_inverse[{method or "default"}]'] = J(lambda s_, m_=method: eq.implicit_inverse(s_, 0.37, **({'method': m_} if m_ else {})))(sp)
        s3 = sp
        for _ in range(3):
          s3 = step(s3)
        got['3 x imex_rk_sil3'] = s3
        got['exponential_filter'] = J(fl[0])(sp)
        got['horizontal_diffusion_filter'] = J(fl[1])(sp)
        got['horizontal_diffusion_step_filter'] = J(sf)(sp, sp)
        for k in got:
          finite_k = _tree_finite(got[k])
          e = _tree_rel(_trim_state(got[k], m0), r[k]) if finite_k else np.inf
          worst[k] = max(worst.get(k, 0.0), e)
      for k, e in worst.items():
        tol = 1e-9 if ('explicit' in k or 'sil3' in k) else 1e-11
        nm = f'mesh{shape}: {cls}, {layers} uneven levels: {k} == unsharded after removing padding, all entries finite ({len(states)} states)'
        if e <= tol:
          out.ok(nm, 'numeric', sample={'obligation': nm, 'worst_rel': e})
        else:
          out.fail(nm, witness={'mesh': list(shape), 'layers': layers, 'cls': cls, 'what': k}, detail=f'worst relative deviation {e:.3e}', key=f'model:{k}')
  return out


def run_model_dry(ctx):
  return run_model(ctx, 'dry')


def run_model_moist(ctx):
  return run_model(ctx, 'moist')


def clauses(tier, seed):
  from contracts import sharding_contracts as S
  fns_t = [SH + n for n in ('FastSphericalHarmonics.transform', 'FastSphericalHarmonics.inverse_transform', 'FastSphericalHarmonics.longitudinal_derivative',
                            '_transform_einsum', '_with_vertical_padding', '_vertical_pad', '_vertical_crop', '_stack_m', '_unstack_m',
                            '_fourier_derivative_for_real_basis_with_zero_imag', 'Grid.clip_wavenumbers', 'Grid.inverse_laplacian')]
  fns_c = [JNU + n for n in ('_parallel_dot_cumsum', '_dot_cumsum', 'cumsum', 'reverse_cumsum', 'sharded_einsum', '_allgather_matmul_twoway',
                             '_matmul_reducescatter_twoway', '_determine_reduce_subscript', '_determine_transfer_subscript')]
  fns_m = ['dinosaur.primitive_equations.PrimitiveEquations.explicit_terms', 'dinosaur.primitive_equations.PrimitiveEquations.implicit_terms',
           'dinosaur.primitive_equations.PrimitiveEquations.implicit_inverse', 'dinosaur.primitive_equations.MoistPrimitiveEquations.explicit_terms',
           'dinosaur.filtering.exponential_filter', 'dinosaur.filtering.horizontal_diffusion_filter',
           'dinosaur.time_integration.horizontal_diffusion_step_filter', 'dinosaur.time_integration.imex_rk_sil3',
           'dinosaur.coordinate_systems._with_sharding_constraint']
  from contracts import fourier_contracts
  return S.clauses(tier) + [c for c in fourier_contracts.clauses() if 'sharded longitude derivative' in c.name] + [
      Clause('numeric:8-device transforms and linear Grid operators on complete bases == unsharded', 'numeric', fns_t, run_transforms,
             replay=rerun_replay(run_transforms), group='jax-a', heavy=True),
      Clause('numeric:8-device cumsum / reverse_cumsum / sharded_einsum == global result', 'numeric', fns_c, run_cumsum_einsum,
             replay=rerun_replay(run_cumsum_einsum), group='jax-b', heavy=True),
      Clause('numeric:8-device dry primitive-equation operators, filters and SIL3 steps == unsharded', 'numeric', fns_m, run_model_dry,
             replay=rerun_replay(run_model_dry), group='jax-c', heavy=True),
      Clause('numeric:8-device moist primitive-equation operators, filters and SIL3 steps == unsharded', 'numeric', fns_m, run_model_moist,
             replay=rerun_replay(run_model_moist), group='jax-d', heavy=True),
  ]


MANIFEST = {
    'engine': 'spmd+pyvc+rtc',
    'technique': ('contract-based: the real collective-matmul and parallel-cumsum functions executed in an SPMD reference interpreter over symbolic chunk '
                  'labels for every even axis size up to 16 (exact per size), pyvc VCs for padding arithmetic at all sizes; 8-virtual-device equality of '
                  'transforms (complete bases), cumsum, einsum, filters, implicit/explicit terms and steps (bounded)'),
    'text': ('other: schedule coverage is exact for each enumerated axis size (complete over data), padding arithmetic is proved for all sizes; '
             'end-to-end equality is bounded by the mesh family on 8 virtual devices, complete over fields for linear operators, sampled for nonlinear ones.'),
    'note': 'trusted: SPMD semantics of the lax collectives as documented (A8), shard_map on virtual CPU devices, A2.',
}
